"""Symbolic Cube / Ecube values for the lane rules (C12, C13)."""
import itertools

from . import bits as B
from .absint import W, CS, Agg, Arr, Ptr, Opaque, TopV, State, Interp, Undecided, wconst, wbool, watoms, new_cell
from .bits import ZERO, ONE
from .lanes import cond_allowed, lane_function, universe, holds
from .report import PROVED, REFUTED, UNDECIDED

CUBE = "sop::cube::Cube"
ECUBE = "sop::ecube::Ecube"
NL = 32


class CubeModel(object):
    def __init__(self, facts):
        self.facts = facts
        adt = facts.adts.get(CUBE)
        if adt is None:
            raise KeyError("anchor-missing: Cube")
        fs = adt["variants"][0]["fields"]
        if len(fs) != 2 or any(f["ty"]["k"] != "uint" or f["ty"]["w"] != 32 for f in fs):
            raise Undecided("Cube representation changed shape")
        self.methods = facts.inherent_methods(CUBE)
        # which field holds the positive literals: the one nth_var(0) sets
        it = Interp(facts)
        outs = it.call_body(self.method("nth_var"), [wconst(64, 0)], State(), {})
        r = [o for o in outs if o.kind == "return"][0].value
        vals = [f.val for f in r.fields]
        if sorted(vals) != [0, 1]:
            raise Undecided("cannot identify the positive-literal field")
        self.pi = vals.index(1)
        self.ni = 1 - self.pi
        z = [o for o in it.call_body(self.method("zero"), [], State(), {}) if o.kind == "return"][0].value
        self.zero = z
        self.private = all(f["vis"] != "pub" for f in fs)

    def method(self, name):
        b = self.methods.get(name)
        if b is None:
            raise KeyError("anchor-missing: Cube::%s" % name)
        return b

    def sym(self, name):
        f = [None, None]
        f[self.pi] = watoms(32, name + ".P")
        f[self.ni] = watoms(32, name + ".N")
        return Agg("adt", CUBE, 0, f)

    def pos(self, v):
        return v.fields[self.pi]

    def neg(self, v):
        return v.fields[self.ni]

    def is_zero_value(self, v):
        return isinstance(v, Agg) and v.key == CUBE and all(isinstance(f, W) for f in v.fields) and v.fields[0].val == self.zero.fields[0].val and v.fields[1].val == self.zero.fields[1].val and v.fields[0].val is not None


def arg_for(ty, cube_value, st):
    """pass a cube by value or by reference as the signature asks"""
    if ty["k"] == "ref":
        c = new_cell()
        st.mem[c] = cube_value
        return Ptr(c, ())
    return cube_value


def subsets(U, cap=12):
    if len(U) > cap:
        raise Undecided("lane universe too large (%d)" % len(U))
    for r in range(1, len(U) + 1):
        for S in itertools.combinations(U, r):
            yield S


def decide_bool(outs, varnames, U, spec, nlanes=NL, cap=12):
    """outs: interpreter outcomes of a bool-returning function.  spec(S) -> bool where S is a tuple
    of lane assignments (tuples ordered like varnames).  Exact comparison on every non-empty S."""
    rows = []
    for o in outs:
        conds = []
        for c in o.pc:
            p = cond_allowed(c, varnames, nlanes, U)
            if p is None:
                return UNDECIDED, "path condition is not a uniform lane predicate"
            conds.append(p)
        if o.kind == "panic":
            rows.append((conds, "panic:" + str(o.info.get("msg"))))
            continue
        p = cond_allowed(o.value, varnames, nlanes, U)
        if p is None:
            return UNDECIDED, "result is not a uniform lane predicate: %r" % (o.value,)
        rows.append((conds, p))
    for S in subsets(U, cap):
        got = []
        for conds, val in rows:
            if all(holds(c, S) for c in conds):
                got.append(val if isinstance(val, str) else holds(val, S))
        want = spec(S)
        if len(got) != 1 or got[0] != want:
            return REFUTED, "for a cube/assignment whose lanes take exactly the values %s (%s): returns %s, specification says %s" % (list(S), ",".join(varnames), got, want)
    return PROVED, ""
