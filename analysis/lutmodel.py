"""Symbolic Lut / StaticLut values and entry-point plumbing for the abstract interpreter."""
from . import bits as B
from .absint import (W, Agg, Arr, Ptr, Opaque, TopV, State, Interp, Undecided, new_cell, wconst, wbool)
from .bits import ZERO, ONE

LUT = "lut::Lut"
SLUT = "static_lut::StaticLut"


def table_words(n):
    return 1 if n <= 6 else 1 << (n - 6)


class Shape(object):
    """field layout of the two table types, discovered from the ADT facts by field *type*"""

    def __init__(self, facts):
        self.facts = facts
        lut = facts.adts.get(LUT)
        slut = facts.adts.get(SLUT)
        if lut is None or slut is None:
            raise KeyError("anchor-missing: Lut / StaticLut ADT")
        lf = lut["variants"][0]["fields"]
        self.lut_nfields = len(lf)
        self.lut_nv = [i for i, f in enumerate(lf) if f["ty"]["k"] == "uint"]
        self.lut_tab = [i for i, f in enumerate(lf) if f["ty"]["k"] == "adt" and "Box" in f["ty"]["path"]]
        sf = slut["variants"][0]["fields"]
        self.slut_nfields = len(sf)
        self.slut_tab = [i for i, f in enumerate(sf) if f["ty"]["k"] == "array"]
        if len(self.lut_nv) != 1 or len(self.lut_tab) != 1 or len(self.slut_tab) != 1 or self.lut_nfields != 2 or self.slut_nfields != 1:
            raise Undecided("representation of Lut/StaticLut changed shape")
        self.lut_nv, self.lut_tab, self.slut_tab = self.lut_nv[0], self.lut_tab[0], self.slut_tab[0]
        self.private = all(not f["pub"] for f in lf + sf)


def sym_words(n, name, wellformed=True):
    """table of an n-variable function with one atom per table bit"""
    words = []
    nb = 1 << n
    for w in range(table_words(n)):
        bits = []
        for p in range(64):
            g = w * 64 + p
            if g < nb or not wellformed:
                bits.append(B.atom("%s[%d]" % (name, g)))
            else:
                bits.append(ZERO)
        from .absint import TRACK
        words.append(W(64, bits=bits, term=("in", name, w) if TRACK[0] else None))
    return words


def const_words(n, f):
    """table of the function f(p) -> 0/1"""
    words = []
    for w in range(table_words(n)):
        v = 0
        for p in range(64):
            g = w * 64 + p
            if g < (1 << n) and f(g):
                v |= 1 << p
        words.append(wconst(64, v))
    return words


class Kind(object):
    """'dyn' = Lut, 'static' = StaticLut<N,T>"""

    def __init__(self, facts, shape, which):
        self.facts = facts
        self.shape = shape
        self.which = which
        self.adt = LUT if which == "dyn" else SLUT
        self.methods = facts.inherent_methods(self.adt)

    def env(self, n):
        if self.which == "dyn":
            return {}
        return {"N": n, "T": table_words(n)}

    def mk(self, st, n, words):
        """-> Lut value (the heap array is allocated in st)"""
        if self.which == "dyn":
            cell = new_cell()
            st.mem[cell] = Arr(words)
            f = [None, None]
            f[self.shape.lut_nv] = wconst(64, n)
            f[self.shape.lut_tab] = Ptr(cell, (), (0, len(words)), "box")
            return Agg("adt", LUT, 0, f)
        return Agg("adt", SLUT, 0, (Arr(words),))

    def words(self, interp, st, v):
        if not isinstance(v, Agg) or v.key != self.adt:
            raise Undecided("not a %s: %r" % (self.adt, v))
        if self.which == "dyn":
            p = v.fields[self.shape.lut_tab]
            return list(interp.slice_elems(st, p))
        return list(v.fields[self.shape.slut_tab].elems)

    def num_vars_of(self, v):
        if self.which == "dyn":
            return v.fields[self.shape.lut_nv]
        return None

    def method(self, name):
        b = self.methods.get(name)
        if b is None:
            raise KeyError("anchor-missing: %s::%s" % (self.adt, name))
        return b

    def place(self, st, v):
        """put a value in a fresh cell and return a reference to it"""
        c = new_cell()
        st.mem[c] = v
        return Ptr(c, ())


def usize(v):
    return wconst(64, v)


def bits_of_table(words, n):
    """flatten to the 2^n (or 64 for n<6: including the unused high bits) bit values"""
    out = []
    for w in words:
        out.extend(w.all_bits())
    return out


def returns(outs):
    return [o for o in outs if o.kind == "return"]


def panics(outs):
    return [o for o in outs if o.kind == "panic"]
