"""Shared plumbing for the bitflow rules: running public entry points on symbolic tables,
comparing results with specifications, satisfiability of path conditions."""
import itertools

from . import bits as B
from .absint import W, CS, Agg, Arr, Ptr, Opaque, TopV, State, Interp, Undecided, wconst, wbool, watoms
from .bits import ZERO, ONE
from .lutmodel import Shape, Kind, sym_words, const_words, bits_of_table, usize, table_words, returns, panics
from .report import PROVED, REFUTED, UNDECIDED


def _solve_components(ones, zeros):
    """ones: bit functions that must be 1, zeros: must be 0.  Independent components are
    solved separately by enumeration.  -> assignment dict, None (unsat) or 'big'"""
    cons = [(f, 1) for f in ones] + [(f, 0) for f in zeros]
    parent = {}

    def find(x):
        while parent.get(x, x) != x:
            parent[x] = parent.get(parent[x], parent[x])
            x = parent[x]
        return x

    for f, _ in cons:
        at = f[0]
        if not at:
            if f[1] != _:
                return None
            continue
        r = find(at[0])
        for a in at[1:]:
            parent[find(a)] = r
    groups = {}
    for f, want in cons:
        if f[0]:
            groups.setdefault(find(f[0][0]), []).append((f, want))
    asg = {}
    for g in groups.values():
        atoms = sorted({a for f, _ in g for a in f[0]})
        if len(atoms) > 18:
            return "big"
        found = False
        for vals in itertools.product((0, 1), repeat=len(atoms)):
            cand = dict(zip(atoms, vals))
            if all(B.eval_bit(f, cand) == want for f, want in g):
                asg.update(cand)
                found = True
                break
        if not found:
            return None
    return asg


def pc_status(pc, extra=()):
    """satisfiability of a path condition (conjunction of Boolean abstract values).
    -> ('unsat', None) | ('sat', assignment) | ('unknown', reason)"""
    ones, zeros, anys = [], [], []
    unknown = None
    for c in tuple(pc) + tuple(extra):
        if isinstance(c, W):
            if c.val is not None:
                if not c.val:
                    return "unsat", None
                continue
            b = c.bits[0]
            if b is None:
                unknown = "top condition"
                continue
            ones.append(b)
        elif isinstance(c, CS):
            if c.has_top():
                unknown = "clause set with top"
                continue
            if c.neg:
                anys.append(sorted(c.clauses))
            else:
                zeros.extend(c.clauses)
        else:
            unknown = "non-boolean condition"
    base = _solve_components(ones, zeros)
    if base is None:
        return "unsat", None
    if base == "big":
        return "unknown", "component too large"
    # disjunctive conditions ("some clause is 1"): greedy, one clause per condition; only the
    # constraints sharing atoms with the candidate clause are re-solved
    chosen = []
    for idx, clauses in enumerate(anys):
        found = False
        inconclusive = False
        cur_ones, cur_zeros = ones + chosen, zeros
        for c in clauses[:4096]:
            at = set(c[0])
            rel_ones, rel_zeros = [], []
            changed = True
            while changed:
                changed = False
                for f in cur_ones:
                    if f not in rel_ones and at & set(f[0]):
                        rel_ones.append(f)
                        at |= set(f[0])
                        changed = True
                for f in cur_zeros:
                    if f not in rel_zeros and at & set(f[0]):
                        rel_zeros.append(f)
                        at |= set(f[0])
                        changed = True
            r = _solve_components(rel_ones + [c], rel_zeros)
            if r == "big":
                inconclusive = True
                continue
            if r is not None:
                chosen.append(c)
                found = True
                break
        if not found:
            if inconclusive or len(clauses) > 4096:
                return "unknown", "disjunctive condition not resolved greedily"
            if idx > 0:
                # the earlier greedy choices may be to blame: without them, can any clause of this condition be 1?
                alone = False
                for c in clauses:
                    at = set(c[0])
                    rel_ones, rel_zeros = [], []
                    changed = True
                    while changed:
                        changed = False
                        for f in ones:
                            if f not in rel_ones and at & set(f[0]):
                                rel_ones.append(f)
                                at |= set(f[0])
                                changed = True
                        for f in zeros:
                            if f not in rel_zeros and at & set(f[0]):
                                rel_zeros.append(f)
                                at |= set(f[0])
                                changed = True
                    if _solve_components(rel_ones + [c], rel_zeros) is not None:
                        alone = True
                        break
                if alone:
                    return "unknown", "disjunctive condition not resolved greedily"
            return "unsat", None
    r = _solve_components(ones + chosen, zeros)
    if r is None or r == "big":
        return "unknown", "greedy choice inconsistent"
    if unknown:
        return "unknown", unknown
    return "sat", {B.ATOMS.name(a): v for a, v in r.items()}


class Space(object):
    """A fixed universe of at most 16 atoms; every exact Boolean abstract value over it is tabulated as one
    integer bit set over the 2^k assignments (bit r = value under assignment r, atom j = bit j of r).  Exact and
    fast path feasibility for the small-window rules (all conditions of a path are ANDed as integers)."""

    def __init__(self, atom_names, constraint=()):
        self.names = list(atom_names)
        self.ids = [B.ATOMS.get(x) for x in self.names]
        self.key = tuple(self.ids)
        k = len(self.ids)
        if k > 16:
            raise Undecided("window of %d atoms" % k)
        self.k = k
        self.full = (1 << (1 << k)) - 1
        self.var = {}
        for j, a in enumerate(self.ids):
            m = 0
            blk = ((1 << (1 << j)) - 1) << (1 << j)
            step = 1 << (j + 1)
            for base in range(0, 1 << k, step):
                m |= blk << base
            self.var[a] = m
        self.cache = {}
        self.base = self.full
        for c in constraint:
            self.base &= self.mask(c)

    def __enter__(self):
        B.ACTIVE[0] = self
        return self

    def __exit__(self, *exc):
        B.ACTIVE[0] = None
        return False

    def bit_mask(self, b):
        if b is None:
            return None
        if b[1] == "sp":
            return b[2] if b[0] == self.key else None
        hit = self.cache.get(b)
        if hit is not None:
            return hit
        if not b[0]:
            m = self.full if b[1] else 0
        elif b[1] in ("os", "nos"):
            m = 0
            for t in b[2]:
                tm = self.bit_mask(t)
                if tm is None:
                    return None
                m |= tm
            if b[1] == "nos":
                m ^= self.full
        elif b[1] == "xs":
            m = self.full if b[3] else 0
            for mon in b[2]:
                mm = self.full
                for a in mon:
                    if a not in self.var:
                        return None
                    mm &= self.var[a]
                m ^= mm
        else:
            atoms, tt = b
            if any(a not in self.var for a in atoms):
                return None
            m = 0
            for r in range(1 << len(atoms)):
                if (tt >> r) & 1:
                    mm = self.full
                    for j, a in enumerate(atoms):
                        mm &= self.var[a] if (r >> j) & 1 else (self.full ^ self.var[a])
                    m |= mm
        self.cache[b] = m
        return m

    def mask(self, c):
        """bit set of a Boolean abstract value, None if not exact over this universe"""
        if isinstance(c, W):
            if c.val is not None:
                return self.full if c.val else 0
            return self.bit_mask(c.bits[0])
        if isinstance(c, CS):
            if c.has_top():
                return None
            m = self.full
            for cl in c.clauses:
                cm = self.bit_mask(cl)
                if cm is None:
                    return None
                m &= self.full ^ cm
            return (self.full ^ m) if c.neg else m
        return None

    def pc_mask(self, pc):
        m = self.base
        for c in pc:
            cm = self.mask(c)
            if cm is None:
                return None
            m &= cm
            if not m:
                return 0
        return m

    def index(self, named):
        r = 0
        for j, nm in enumerate(self.names):
            if named.get(nm):
                r |= 1 << j
        return r


def compare_bits(got, exp, pc=()):
    """-> (verdict, detail) comparing two bit-value lists (under the path condition pc)"""
    if len(got) != len(exp):
        return REFUTED, "result has %d bits, expected %d" % (len(got), len(exp))
    tops = 0
    unknown = None
    for p, (g, e) in enumerate(zip(got, exp)):
        if g is None:
            tops += 1
            continue
        if g != e:
            if pc:
                x = B.bxor(g, e)
                if x is None:
                    unknown = "bit %d differs syntactically, support too large to decide under the path condition" % p
                    continue
                s, w = pc_status(pc, extra=(W(1, bits=[x]),))
                if s == "unsat":
                    continue
                if s == "unknown":
                    unknown = "bit %d: %s" % (p, w)
                    continue
            else:
                w = witness(g, e)
            return REFUTED, "bit %d is %s, specification says %s; differs under %s" % (p, B.describe(g), B.describe(e), w)
    if tops:
        return UNDECIDED, "%d result bits are top" % tops
    if unknown:
        return UNDECIDED, unknown
    return PROVED, ""


def witness(g, e):
    atoms = sorted(set(g[0]) | set(e[0]))
    for vals in itertools.product((0, 1), repeat=len(atoms)):
        asg = dict(zip(atoms, vals))
        if B.eval_bit(g, asg) != B.eval_bit(e, asg):
            return {B.ATOMS.name(a): v for a, v in asg.items()}
    return None


def single_return(outs):
    """-> (outcome or None, verdict, detail): exactly one normal return and no feasible panic"""
    rets = returns(outs)
    for o in panics(outs):
        s, w = pc_status(o.pc)
        if s == "sat":
            return None, REFUTED, "panics (%s in %s) on valid input %s" % (o.info.get("msg"), o.info.get("fn"), w if w else "")
        if s == "unknown":
            return None, UNDECIDED, "possible panic (%s in %s): %s" % (o.info.get("msg"), o.info.get("fn"), w)
    if len(rets) != 1:
        return None, UNDECIDED, "%d return paths" % len(rets)
    return rets[0], PROVED, ""


def all_returns(outs):
    """-> (list of return outcomes, verdict, detail): like single_return, for bodies that return along several paths
    (data-dependent fast paths).  The paths partition the inputs (every branch splits the path condition), so a
    property of the result holds iff it holds on every return path under that path's condition; paths whose condition
    is unsatisfiable are dropped."""
    rets = returns(outs)
    for o in panics(outs):
        s, w = pc_status(o.pc)
        if s == "sat":
            return None, REFUTED, "panics (%s in %s) on valid input %s" % (o.info.get("msg"), o.info.get("fn"), w if w else "")
        if s == "unknown":
            return None, UNDECIDED, "possible panic (%s in %s): %s" % (o.info.get("msg"), o.info.get("fn"), w)
    live = []
    for o in rets:
        s, w = pc_status(o.pc) if o.pc else ("sat", None)
        if s != "unsat":
            live.append(o)
    if not live:
        return None, UNDECIDED, "no return path"
    if len(live) > 8:
        return None, UNDECIDED, "%d return paths" % len(live)
    return live, PROVED, ""


class Env(object):
    """facts + kinds, created once per check"""

    def __init__(self, facts):
        self.facts = facts
        self.shape = Shape(facts)
        self.kinds = {"dyn": Kind(facts, self.shape, "dyn"), "static": Kind(facts, self.shape, "static")}

    def interp(self, **kw):
        return Interp(self.facts, **kw)


def where_of(body):
    sp = body.get("span")
    return "%s:%d (%s)" % (sp["file"], sp["line"], body["path"]) if sp else body["path"]


# ----------------------------------------------------------------------------------------------
# calling a method/impl body with table operands chosen from its signature
# ----------------------------------------------------------------------------------------------
def is_table_ty(ty, adt):
    return ty["k"] == "adt" and ty["path"] == adt


def call_with_tables(env, kind, body, n, names, extra=None, wellformed=True):
    """Build one symbolic table per table-typed parameter (by value or by reference, from the
    signature), call the body, return (interp, outcomes, operand info).  `extra` supplies values for
    the remaining (non-table) parameters in order."""
    K = env.kinds[kind]
    it = env.interp()
    st = State()
    args = []
    ops = []
    extra = list(extra or [])
    ni = 0
    for ty in body["sig"]["inputs"]:
        if is_table_ty(ty, K.adt):
            v = K.mk(st, n, sym_words(n, names[ni], wellformed))
            ops.append(dict(name=names[ni], by="value", ptr=None))
            args.append(v)
            ni += 1
        elif ty["k"] == "ref" and is_table_ty(ty["t"], K.adt):
            v = K.mk(st, n, sym_words(n, names[ni], wellformed))
            p = K.place(st, v)
            ops.append(dict(name=names[ni], by="mut" if ty["mut"] else "ref", ptr=p))
            args.append(p)
            ni += 1
        else:
            args.append(extra.pop(0))
    outs = it.call_body(body, args, st, K.env(n))
    return it, outs, ops


def table_bits(env, kind, it, st, v, n):
    K = env.kinds[kind]
    return bits_of_table(K.words(it, st, v), n)


def check_table_value(env, kind, it, st, v, n, exp, pc=()):
    """value is a table of the right type, size and number of variables, with the expected bits"""
    K = env.kinds[kind]
    try:
        words = K.words(it, st, v)
    except Undecided as e:
        return UNDECIDED, e.cause
    if len(words) != table_words(n):
        return REFUTED, "result has %d blocks, expected %d" % (len(words), table_words(n))
    nv = K.num_vars_of(v)
    if nv is not None:
        if nv.val is None:
            return UNDECIDED, "symbolic num_vars"
        if nv.val != n:
            return REFUTED, "result has num_vars=%d, expected %d" % (nv.val, n)
    return compare_bits(bits_of_table(words, n), exp, pc)


# ----------------------------------------------------------------------------------------------
# canonical (hashable) form of abstract values, with the two table types normalised
# ----------------------------------------------------------------------------------------------
TABLE_ADTS = ("lut::Lut", "static_lut::StaticLut")


def canon(v, it, st, depth=0, shape=None):
    if isinstance(v, W):
        return ("W", v.width, v.val if v.val is not None else tuple("T" if b is None else b for b in v.bits))
    if isinstance(v, CS):
        return ("CS", v.neg, frozenset("T" if b is None else b for b in v.clauses))
    if isinstance(v, Agg):
        if v.key in TABLE_ADTS and shape is not None:
            try:
                if v.key == "lut::Lut":
                    words = it.slice_elems(st, v.fields[shape.lut_tab])
                    nv = v.fields[shape.lut_nv]
                    return ("Table", canon(nv, it, st), tuple(canon(w, it, st) for w in words))
                return ("Table", None, tuple(canon(w, it, st) for w in v.fields[shape.slut_tab].elems))
            except Exception:
                return ("Top", "table")
        key = "ITER" if (v.key and v.key.endswith("Iterator") and shape is not None) else v.key
        return ("Agg", v.kind, key, v.variant, tuple(canon(f, it, st, depth + 1, shape) for f in v.fields))
    if isinstance(v, Arr):
        return ("Seq", tuple(canon(f, it, st, depth + 1, shape) for f in v.elems))
    if isinstance(v, Ptr):
        if depth > 4:
            return ("Ptr",)
        try:
            if v.sl is not None:
                return ("Seq", tuple(canon(e, it, st, depth + 1, shape) for e in it.slice_elems(st, v)))
            return ("Ref", canon(it.read_ptr(st, v), it, st, depth + 1, shape))
        except Exception:
            return ("Ptr?",)
    if isinstance(v, Opaque):
        return ("Opaque", v.kind, tuple(canon(f, it, st, depth + 1, shape) for f in v.data))
    if isinstance(v, (tuple, list)):
        return ("Tuple",) + tuple(canon(f, it, st, depth + 1, shape) for f in v)
    if isinstance(v, (str, int)) or v is None:
        return v
    if isinstance(v, TopV):
        return ("Top", v.cause)
    return ("?", repr(v))


def has_top(c):
    if isinstance(c, (tuple, frozenset, list)):
        if isinstance(c, tuple) and c and c[0] == "Top":
            return True
        return any(has_top(x) for x in c)
    return c == "T"


# ----------------------------------------------------------------------------------------------
# small-domain comparison of an abstract summary with a specification
# ----------------------------------------------------------------------------------------------
def eval_value(v, asg):
    """evaluate an abstract value under a total assignment of its atoms (dict atom id -> 0/1);
    None when a TOP bit is met"""
    if isinstance(v, W):
        if v.val is not None:
            return v.val
        out = 0
        for k, b in enumerate(v.bits):
            if b is None:
                return None
            if B.eval_bit(b, asg):
                out |= 1 << k
        return out
    if isinstance(v, CS):
        if v.has_top():
            return None
        allzero = all(not B.eval_bit(c, asg) for c in v.clauses)
        return int(allzero != v.neg)
    if isinstance(v, Agg):
        parts = [eval_value(f, asg) for f in v.fields]
        if any(p is None for p in parts):
            return None
        return (v.key, v.variant, tuple(parts))
    return None


def decide_by_enumeration(outs, atom_names, spec, describe_result=lambda x: x, project=None, limit=1 << 16):
    """For every assignment of the listed atoms: exactly one outcome is enabled, it returns, and its
    value equals spec(assignment dict name->bit).  Exact (the summary is evaluated, not the program)."""
    ids = [B.ATOMS.get(nm) for nm in atom_names]
    if (1 << len(ids)) > limit:
        return UNDECIDED, "too many atoms (%d)" % len(ids)
    for vals in itertools.product((0, 1), repeat=len(ids)):
        asg = dict(zip(ids, vals))
        named = dict(zip(atom_names, vals))
        enabled = []
        for o in outs:
            ok = True
            for c in o.pc:
                cv = eval_value(c, asg)
                if cv is None:
                    return UNDECIDED, "path condition with top"
                if not cv:
                    ok = False
                    break
            if ok:
                enabled.append(o)
        want = spec(named)
        if want == "skip":
            continue
        if len(enabled) != 1:
            return (UNDECIDED if enabled else REFUTED), "%d paths enabled for %s" % (len(enabled), named)
        o = enabled[0]
        if o.kind != "return":
            if want == "panic":
                continue
            return REFUTED, "panics (%s) for %s, expected %s" % (o.info.get("msg"), named, describe_result(want))
        got = eval_value(o.value, asg)
        if got is None:
            return UNDECIDED, "result with top"
        if project is not None:
            got = project(got)
        if want == "panic" or got != want:
            return REFUTED, "for %s the result is %s, the specification says %s" % ({k: v for k, v in named.items() if v}, describe_result(got), describe_result(want))
    return PROVED, ""


def eval_outs(outs, asg):
    """value of a summary (list of outcomes) under a total assignment: ('value', x) | ('panic', msg) | None"""
    enabled = []
    for o in outs:
        ok = True
        for c in o.pc:
            cv = eval_value(c, asg)
            if cv is None:
                return None
            if not cv:
                ok = False
                break
        if ok:
            enabled.append(o)
    if len(enabled) != 1:
        return None
    o = enabled[0]
    if o.kind != "return":
        return ("panic", o.info.get("msg"))
    v = eval_value(o.value, asg)
    if v is None:
        return None
    return ("value", v)


# ----------------------------------------------------------------------------------------------
# recognising a comparison written as control flow: "compare word j1; if different return its order;
# else word j2; ...; Equal"
# ----------------------------------------------------------------------------------------------
def lex_order(outs, a_words, b_words, unwrap_some=False):
    """-> list of word indices in the order they are compared (every word once), or None"""
    T = len(a_words)
    if unwrap_some:
        from .absint import Outcome, OPTION
        outs2 = []
        for o in outs:
            if o.kind == "return" and isinstance(o.value, Agg) and o.value.key == OPTION and o.value.variant == 1:
                outs2.append(Outcome("return", o.state, o.pc, o.value.fields[0]))
            else:
                return None
        outs = outs2
    key_of = {}
    for j in range(T):
        cl = frozenset(x for x in (B.bxor(p, q) for p, q in zip(a_words[j].all_bits(), b_words[j].all_bits())) if x != ZERO)
        key_of[cl] = j
    from .absint import mk_cs
    eqbit = {}
    for j in range(T):
        e = mk_cs([B.bxor(p, q) for p, q in zip(a_words[j].all_bits(), b_words[j].all_bits())])
        if isinstance(e, W) and e.val is None:
            eqbit[e.bits[0]] = ("eq", j)
            eqbit[B.bnot(e.bits[0])] = ("ne", j)
    # narrow words: "a < b" is an exact small function rather than a named atom
    from .absint import w_sub
    ltbit = {}
    for j in range(T):
        for (x, y, nm_pos, nm_neg) in ((a_words[j], b_words[j], "a<b", "a>=b"), (b_words[j], a_words[j], "b<a", "b>=a")):
            _, bo = w_sub(x, y)
            if bo is not None and bo[0]:
                ltbit.setdefault(bo, (nm_pos, j))
                ltbit.setdefault(B.bnot(bo), (nm_neg, j))
    bits_a = {tuple(w.all_bits()): j for j, w in enumerate(a_words)}
    bits_b = {tuple(w.all_bits()): j for j, w in enumerate(b_words)}
    chains = []
    halves = {}
    final_seen = False
    from .absint import ULT_OF
    for o in outs:
        if o.kind != "return":
            return None
        conds = []
        for c in o.pc:
            if isinstance(c, W) and c.val is not None:
                if not c.val:
                    conds = None
                    break
                continue
            if isinstance(c, CS) and not c.has_top() and frozenset(c.clauses) in key_of:
                conds.append(("ne" if c.neg else "eq", key_of[frozenset(c.clauses)]))
            elif isinstance(c, W) and c.val is None and c.bits[0] in eqbit:
                conds.append(eqbit[c.bits[0]])
            elif isinstance(c, W) and c.val is None and c.bits[0] in ltbit:
                conds.append(ltbit[c.bits[0]])
            elif isinstance(c, W) and c.val is None and (c.bits[0] in ULT_OF or B.bnot(c.bits[0]) in ULT_OF):
                pos = c.bits[0] in ULT_OF
                kx, ky = ULT_OF[c.bits[0] if pos else B.bnot(c.bits[0])]
                ja, jb = bits_a.get(kx), bits_b.get(ky)
                if ja is not None and ja == jb:
                    conds.append(("a<b" if pos else "a>=b", ja))
                else:
                    ja, jb = bits_a.get(ky), bits_b.get(kx)
                    if ja is None or ja != jb:
                        return None
                    conds.append(("b<a" if pos else "b>=a", ja))
            else:
                return None
        if conds is None:
            continue
        v = o.value
        if isinstance(v, Agg) and v.key == "std::cmp::Ordering" and conds and conds[-1][0] in ("a<b", "a>=b", "b<a", "b>=a"):
            kind_, j = conds[-1]
            if len(conds) < 2 or conds[-2] != ("ne", j) or any(k != "eq" for k, _ in conds[:-2]):
                return None
            # given a != b:  a<b -> Less ; a>=b -> Greater ; b<a -> Greater ; b>=a -> Less
            want = {"a<b": 0, "a>=b": 2, "b<a": 2, "b>=a": 0}[kind_]
            if v.variant != want:
                return None
            halves.setdefault(j, []).append(([jj for _, jj in conds[:-1]], ("lt", True) if want == 0 else ("ge", False)))
            continue
        if isinstance(v, Agg) and v.key == "std::cmp::Ordering":
            if v.variant != 1 or any(k != "eq" for k, _ in conds) or sorted(j for _, j in conds) != list(range(T)):
                return None
            final_seen = True
            continue
        if not (isinstance(v, Opaque) and v.kind == "lexcmp" and len(v.data[0]) == 1 and len(v.data[1]) == 1):
            return None
        ja = bits_a.get(tuple(v.data[0][0].all_bits()))
        jb = bits_b.get(tuple(v.data[1][0].all_bits()))
        if ja is None or ja != jb:
            return None
        if not conds or conds[-1] != ("ne", ja) or any(k != "eq" for k, _ in conds[:-1]):
            return None
        chains.append([j for _, j in conds])
    # "different, then a < b ? Less : Greater" counts as the three-way comparison of that word
    for j, pols in halves.items():
        got = {}
        for ch, less_when in pols:
            got.setdefault(tuple(ch), set()).add(less_when)
        for ch, sset in got.items():
            if sset != {("lt", True), ("ge", False)}:
                return None
            chains.append(list(ch))
    if not final_seen or len(chains) != T:
        return None
    chains.sort(key=len)
    order = chains[-1]
    for k, ch in enumerate(chains):
        if ch != order[: k + 1]:
            return None
    if sorted(order) != list(range(T)):
        return None
    return order


_cmp_kernel_cache = {}


def cmp_kernel_hook(facts):
    """call hook: a local function (&[u64], &[u64]) -> Ordering that is written as control flow is analysed
    once per slice length on symbolic words; when it is a lexicographic comparison in some block order it is
    replaced by the summary lexcmp(blocks in that order).  Otherwise the call is interpreted as usual."""
    def is_u64_slice(ty):
        return ty["k"] == "ref" and not ty["mut"] and ty["t"]["k"] == "slice" and ty["t"]["t"].get("w") == 64

    def hook(interp, body, args, st, pc):
        sig = body.get("sig")
        if not sig or len(sig["inputs"]) != 2 or not all(is_u64_slice(x) for x in sig["inputs"]) or sig["output"].get("path") != "std::cmp::Ordering":
            return None
        try:
            ea, eb = list(interp.slice_elems(st, args[0])), list(interp.slice_elems(st, args[1]))
        except Undecided:
            return None
        if len(ea) != len(eb) or not all(isinstance(x, W) for x in ea + eb):
            return None
        if all(x.val is not None for x in ea + eb):
            return None
        L = len(ea)
        key = (id(facts), body["key"], L)
        if key not in _cmp_kernel_cache:
            order = None
            try:
                it2 = Interp(facts)
                st2 = State()
                from .absint import new_cell, Arr
                wa = [watoms(64, "cmpA%d" % j) for j in range(L)]
                wb = [watoms(64, "cmpB%d" % j) for j in range(L)]
                ca, cb = new_cell(), new_cell()
                st2.mem[ca], st2.mem[cb] = Arr(wa), Arr(wb)
                from .absint import ult_mode
                with ult_mode():
                    outs = it2.call_body(body, [Ptr(ca, (), (0, L)), Ptr(cb, (), (0, L))], st2, {})
                rets = returns(outs)
                if len(rets) == 1 and not panics(outs):
                    order = "native"
                elif len(rets) > 1 and not panics(outs):
                    order = lex_order(outs, wa, wb)
            except Undecided:
                order = None
            _cmp_kernel_cache[key] = order
        order = _cmp_kernel_cache[key]
        if order is None or order == "native":
            return None
        return interp.ret(st, pc, Opaque("lexcmp", (tuple(ea[j] for j in order), tuple(eb[j] for j in order))))
    return hook
