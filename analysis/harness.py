"""Shared plumbing for the bitflow rules: running public entry points on symbolic tables,
comparing results with specifications, satisfiability of path conditions."""
import itertools

from . import bits as B
from .absint import W, CS, Agg, Arr, Ptr, Opaque, TopV, State, Interp, Undecided, wconst, wbool, watoms
from .bits import ZERO, ONE
from .lutmodel import Shape, Kind, sym_words, const_words, bits_of_table, usize, table_words, returns, panics
from .report import PROVED, REFUTED, UNDECIDED


def pc_status(pc, extra=()):
    """satisfiability of a path condition (conjunction of Boolean abstract values).
    -> ('unsat', None) | ('sat', assignment) | ('unknown', reason)"""
    fns = []      # exact bit functions that must be 1
    unknown = None
    for c in tuple(pc) + tuple(extra):
        if isinstance(c, W):
            if c.val is not None:
                if not c.val:
                    return "unsat", None
                continue
            b = c.bits[0]
            if b is None:
                unknown = "top condition"
                continue
            fns.append(("bit", b))
        elif isinstance(c, CS):
            if c.has_top():
                unknown = "clause set with top"
                continue
            fns.append(("cs", c))
        else:
            unknown = "non-boolean condition"
    atoms = set()
    for k, f in fns:
        if k == "bit":
            atoms.update(f[0])
        else:
            for cl in f.clauses:
                atoms.update(cl[0])
    atoms = sorted(atoms)
    if len(atoms) > 20:
        return "unknown", "too many atoms (%d)" % len(atoms)
    for vals in itertools.product((0, 1), repeat=len(atoms)):
        asg = dict(zip(atoms, vals))
        ok = True
        for k, f in fns:
            if k == "bit":
                if not B.eval_bit(f, asg):
                    ok = False
                    break
            else:
                allzero = all(not B.eval_bit(cl, asg) for cl in f.clauses)
                if allzero == f.neg:
                    ok = False
                    break
        if ok:
            if unknown:
                return "unknown", unknown
            return "sat", {B.ATOMS.name(a): v for a, v in asg.items()}
    return "unsat", None


def compare_bits(got, exp):
    """-> (verdict, detail) comparing two bit-value lists"""
    if len(got) != len(exp):
        return REFUTED, "result has %d bits, expected %d" % (len(got), len(exp))
    tops = 0
    for p, (g, e) in enumerate(zip(got, exp)):
        if g is None:
            tops += 1
            continue
        if g != e:
            w = witness(g, e)
            return REFUTED, "bit %d is %s, specification says %s; differs under %s" % (p, B.describe(g), B.describe(e), w)
    if tops:
        return UNDECIDED, "%d result bits are top" % tops
    return PROVED, ""


def witness(g, e):
    atoms = sorted(set(g[0]) | set(e[0]))
    for vals in itertools.product((0, 1), repeat=len(atoms)):
        asg = dict(zip(atoms, vals))
        if B.eval_bit(g, asg) != B.eval_bit(e, asg):
            return {B.ATOMS.name(a): v for a, v in asg.items()}
    return None


def single_return(outs):
    """-> (outcome or None, verdict, detail): exactly one normal return and no feasible panic"""
    rets = returns(outs)
    for o in panics(outs):
        s, w = pc_status(o.pc)
        if s == "sat":
            return None, REFUTED, "panics (%s in %s) on valid input %s" % (o.info.get("msg"), o.info.get("fn"), w if w else "")
        if s == "unknown":
            return None, UNDECIDED, "possible panic (%s in %s): %s" % (o.info.get("msg"), o.info.get("fn"), w)
    if len(rets) != 1:
        return None, UNDECIDED, "%d return paths" % len(rets)
    return rets[0], PROVED, ""


class Env(object):
    """facts + kinds, created once per check"""

    def __init__(self, facts):
        self.facts = facts
        self.shape = Shape(facts)
        self.kinds = {"dyn": Kind(facts, self.shape, "dyn"), "static": Kind(facts, self.shape, "static")}

    def interp(self, **kw):
        return Interp(self.facts, **kw)


def where_of(body):
    sp = body.get("span")
    return "%s:%d (%s)" % (sp["file"], sp["line"], body["path"]) if sp else body["path"]
