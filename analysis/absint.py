"""E4 - abstract interpreter over the JSON MIR produced by the driver.

Integers are `W` words: either concrete (Python int) or a vector of bit values from bits.py.
Booleans may additionally be universal clause sets (`CS`).  Aggregates, arrays, pointers and a
few modelled std objects are structural.  Control flow:

  * concrete conditions are followed;
  * a condition that is an exact bit function forks both successors up to the immediate
    post-dominator and merges the two states with ite(cond, a, b)  (join);
  * any other condition (clause set / TOP) splits the path; every path carries its condition.

Unmodelled constructs raise `Undecided` (top): the caller turns that into an UNDECIDED
obligation, never into a violation.
"""
import sys

from . import bits as B
from .bits import ZERO, ONE, TOP

sys.setrecursionlimit(20000)


class _StrDeref(Exception):
    def __init__(self, v):
        self.v = v


class Undecided(Exception):
    def __init__(self, cause):
        Exception.__init__(self, cause)
        self.cause = cause


# ------------------------------------------------------------------------------------------
# values
# ------------------------------------------------------------------------------------------
class W(object):
    """machine integer / bool / char of `width` bits"""
    __slots__ = ("width", "val", "bits", "signed", "term")

    def __init__(self, width, val=None, bits=None, signed=False, term=None):
        self.width = width
        self.signed = signed
        self.term = term
        if val is not None:
            self.val = val & ((1 << width) - 1)
            self.bits = None
        else:
            # normalise: all-constant bit vector -> concrete
            conc = True
            for b in bits:
                if b is None or b[0]:
                    conc = False
                    break
            if conc:
                v = 0
                for i, b in enumerate(bits):
                    if b[1]:
                        v |= 1 << i
                self.val = v
                self.bits = None
            else:
                self.val = None
                self.bits = list(bits)

    def concrete(self):
        return self.val is not None

    def bit(self, i):
        if self.val is not None:
            return ONE if (self.val >> i) & 1 else ZERO
        return self.bits[i]

    def all_bits(self):
        if self.val is not None:
            return B.bits_of_int(self.val, self.width)
        return self.bits

    def sval(self):
        """signed interpretation of a concrete word"""
        v = self.val
        if self.signed and v >> (self.width - 1):
            v -= 1 << self.width
        return v

    def has_top(self):
        return self.val is None and any(b is None for b in self.bits)

    def __repr__(self):
        if self.val is not None:
            return "W%d(%s)" % (self.width, hex(self.val) if self.width > 8 else self.val)
        return "W%d[%s]" % (self.width, ",".join(B.describe(b) for b in self.bits[:4]) + ",..")


def wconst(width, v, signed=False):
    return W(width, val=v, signed=signed)


def wbool(v):
    return W(1, val=1 if v else 0)


def wtop(width, signed=False):
    return W(width, bits=[TOP] * width, signed=signed)


def watoms(width, prefix, signed=False):
    return W(width, bits=[B.atom("%s[%d]" % (prefix, i)) for i in range(width)], signed=signed)


TRACK = [False]   # build word-level terms next to the bit vectors (rule C08.S)


def tm(w):
    """word-level term of a word, if known"""
    if w.val is not None:
        return ("c", w.val)
    return w.term


def mk_term(op, a, b=None):
    if not TRACK[0]:
        return None
    ta = tm(a)
    if ta is None:
        return None
    if b is None:
        return (op, ta)
    tb = tm(b)
    if tb is None:
        return None
    full = (1 << a.width) - 1
    if op == "and":
        for x, y in ((ta, tb), (tb, ta)):
            if x == ("c", full):
                return y
            if x == ("c", 0):
                return ("c", 0)
    if op in ("or", "xor", "add"):
        for x, y in ((ta, tb), (tb, ta)):
            if x == ("c", 0):
                return y
    if op in ("and", "or", "xor", "add", "eq"):
        ta, tb = sorted((ta, tb), key=repr)
    return (op, ta, tb)


ULT_MODE = [False]
ULT = {}
ULT_OF = {}


class ult_mode(object):
    def __enter__(self):
        ULT_MODE[0] = True

    def __exit__(self, *exc):
        ULT_MODE[0] = False
        return False


class CS(object):
    """Boolean that is a conjunction 'every clause function is 0' (neg=False) or its negation."""
    __slots__ = ("clauses", "neg", "term")

    def __init__(self, clauses, neg=False, term=None):
        self.clauses = frozenset(clauses)
        self.neg = neg
        self.term = term

    def has_top(self):
        return None in self.clauses

    def __repr__(self):
        return "%sCS{%d clauses}" % ("!" if self.neg else "", len(self.clauses))


def mk_cs(clauses, neg=False):
    """normalising constructor; returns W(1) when decidable or small enough"""
    cl = set()
    flat = []
    for c in clauses:
        if c is not None and c[1] == "os":
            flat.extend(c[2])  # a disjunction is 0 iff each of its terms is 0
        else:
            flat.append(c)
    for c in flat:
        if c is not None and not c[0]:
            if c[1]:
                return wbool(neg)  # a clause that is constantly 1: conjunction false
            continue
        cl.add(c)
    if not cl:
        return wbool(not neg)
    if None not in cl:
        # try to collapse to a single bit function
        acc = ONE
        for c in cl:
            acc = B.band(acc, B.bnot(c))
            if acc is None or acc[1] in ("os", "nos"):
                acc = None
                break
        if acc is not None:
            return W(1, bits=[B.bnot(acc) if neg else acc])
    return CS(cl, neg)


class Agg(object):
    __slots__ = ("kind", "key", "variant", "fields")

    def __init__(self, kind, key, variant, fields):
        self.kind = kind      # 'tuple' | 'adt' | 'closure'
        self.key = key        # adt path
        self.variant = variant
        self.fields = tuple(fields)

    def __repr__(self):
        return "%s#%s%r" % (self.key or self.kind, self.variant, self.fields)


class Arr(object):
    __slots__ = ("elems",)

    def __init__(self, elems):
        self.elems = tuple(elems)

    def __repr__(self):
        return "Arr(%d)" % len(self.elems)


class Ptr(object):
    """reference / raw pointer / Box / Vec handle: cell + path (+ slice window)"""
    __slots__ = ("cell", "path", "sl", "kind")

    def __init__(self, cell, path=(), sl=None, kind="ref"):
        self.cell = cell
        self.path = tuple(path)
        self.sl = sl          # None or (start, len)
        self.kind = kind      # 'ref' | 'box' | 'vec'

    def __eq__(self, o):
        return isinstance(o, Ptr) and (self.cell, self.path, self.sl, self.kind) == (o.cell, o.path, o.sl, o.kind)

    def __hash__(self):
        return hash((self.cell, self.path, self.sl))

    def __repr__(self):
        return "Ptr(c%d%s%s)" % (self.cell, "".join(".%s" % p for p in self.path), "[%d..+%d]" % self.sl if self.sl else "")


class Opaque(object):
    """modelled std object (iterators, rng, strings); data is a tuple of values"""
    __slots__ = ("kind", "data")

    def __init__(self, kind, data):
        self.kind = kind
        self.data = tuple(data)

    def __repr__(self):
        return "%s%r" % (self.kind, self.data)


class TopV(object):
    __slots__ = ("cause",)

    def __init__(self, cause="top"):
        self.cause = cause

    def __repr__(self):
        return "TopV(%s)" % self.cause


UNIT = Agg("tuple", None, 0, ())
UNINIT = TopV("uninit")

OPTION = "std::option::Option"
RESULT = "std::result::Result"
ORDERING = "std::cmp::Ordering"
RANGE = "std::ops::Range"


def some(v):
    return Agg("adt", OPTION, 1, (v,))


NONE = Agg("adt", OPTION, 0, ())


def ordering(c):
    return Agg("adt", ORDERING, c + 1, ())


# ------------------------------------------------------------------------------------------
# word arithmetic
# ------------------------------------------------------------------------------------------
def _mask(w):
    return (1 << w) - 1


def w_bitwise(op, a, b):
    if a.val is not None and b.val is not None:
        if op == "BitAnd":
            return W(a.width, val=a.val & b.val, signed=a.signed)
        if op == "BitOr":
            return W(a.width, val=a.val | b.val, signed=a.signed)
        return W(a.width, val=a.val ^ b.val, signed=a.signed)
    f = {"BitAnd": B.band, "BitOr": B.bor, "BitXor": B.bxor}[op]
    ab, bb = a.all_bits(), b.all_bits()
    return W(a.width, bits=[f(x, y) for x, y in zip(ab, bb)], signed=a.signed,
             term=mk_term({"BitAnd": "and", "BitOr": "or", "BitXor": "xor"}[op], a, b))


def w_not(a):
    if a.val is not None:
        return W(a.width, val=~a.val, signed=a.signed)
    return W(a.width, bits=[B.bnot(x) for x in a.bits], signed=a.signed, term=mk_term("not", a))


def w_shl(a, k):
    k %= a.width
    if a.val is not None:
        return W(a.width, val=a.val << k, signed=a.signed)
    return W(a.width, bits=[ZERO] * k + a.bits[: a.width - k], signed=a.signed)


def w_shr(a, k):
    k %= a.width
    if a.val is not None:
        if a.signed:
            return W(a.width, val=a.sval() >> k, signed=True)
        return W(a.width, val=a.val >> k)
    fill = a.bits[-1] if a.signed else ZERO
    return W(a.width, bits=a.bits[k:] + [fill] * k, signed=a.signed)


def w_add(a, b, carry_in=ZERO):
    """returns (sum word, carry-out bit)"""
    if a.val is not None and b.val is not None and not carry_in[0]:
        s = a.val + b.val + carry_in[1]
        return W(a.width, val=s, signed=a.signed), (ONE if s >> a.width else ZERO)
    ab, bb = a.all_bits(), b.all_bits()
    out = []
    c = carry_in
    for x, y in zip(ab, bb):
        out.append(B.bxor(B.bxor(x, y), c))
        c = B.bmaj(x, y, c)
    return W(a.width, bits=out, signed=a.signed, term=mk_term("add", a, b) if carry_in == ZERO else None), c


def w_sub(a, b):
    """returns (difference, borrow bit) for unsigned operands"""
    if a.val is not None and b.val is not None:
        d = a.val - b.val
        return W(a.width, val=d, signed=a.signed), (ONE if d < 0 else ZERO)
    s, c = w_add(a, w_not(b), ONE)
    return s, B.bnot(c)


def w_eq(a, b):
    """Boolean value of a == b"""
    if a.val is not None and b.val is not None:
        return wbool(a.val == b.val)
    r = mk_cs([B.bxor(x, y) for x, y in zip(a.all_bits(), b.all_bits())])
    if TRACK[0]:
        r.term = mk_term("eq", a, b)
    return r


def b_not(v):
    if isinstance(v, CS):
        return CS(v.clauses, not v.neg, term=("not", v.term) if v.term is not None else None)
    if isinstance(v, W):
        r = w_not(v)
        if v.term is not None and r.term is None and r.val is None:
            r.term = ("not", v.term)
        return r
    return TopV("not")


def b_and(a, b):
    """logical and of Boolean values (W1 / CS)"""
    if isinstance(a, W) and a.val is not None:
        return b if a.val else wbool(False)
    if isinstance(b, W) and b.val is not None:
        return a if b.val else wbool(False)
    if isinstance(a, W) and isinstance(b, W):
        return w_bitwise("BitAnd", a, b)
    ca, cb = _as_cs(a), _as_cs(b)
    if ca is not None and cb is not None and not ca.neg and not cb.neg:
        return mk_cs(ca.clauses | cb.clauses)
    return TopV("and")


def b_or(a, b):
    r = b_and(b_not(a), b_not(b))
    if isinstance(r, TopV):
        return r
    return b_not(r)


def _as_cs(v):
    if isinstance(v, CS):
        return v
    if isinstance(v, W) and v.width == 1:
        if v.val is not None:
            return CS([] if v.val else [ONE])
        return CS([B.bnot(v.bits[0])])
    return None


# ------------------------------------------------------------------------------------------
# state
# ------------------------------------------------------------------------------------------
class State(object):
    __slots__ = ("mem",)

    def __init__(self, mem=None):
        self.mem = mem if mem is not None else {}

    def fork(self):
        return State(dict(self.mem))


_cell_counter = [0]


def new_cell():
    _cell_counter[0] += 1
    return _cell_counter[0]


def get_path(v, path):
    for p in path:
        if isinstance(v, Ptr):
            # field projections into Box/Vec internals keep the handle
            continue
        if isinstance(v, Agg):
            v = v.fields[p]
        elif isinstance(v, Arr):
            v = v.elems[p]
        elif isinstance(v, TopV):
            return v
        else:
            raise Undecided("projection %r on %r" % (p, v))
    return v


def set_path(v, path, new):
    if not path:
        return new
    p = path[0]
    if isinstance(v, Agg):
        f = list(v.fields)
        f[p] = set_path(f[p], path[1:], new)
        return Agg(v.kind, v.key, v.variant, f)
    if isinstance(v, Arr):
        e = list(v.elems)
        e[p] = set_path(e[p], path[1:], new)
        return Arr(e)
    if isinstance(v, TopV):
        # writing a field of an uninitialised aggregate: cannot track shape
        raise Undecided("write into %r" % (v,))
    raise Undecided("set_path on %r" % (v,))


_merge_fail = [0]


def merge_val(c, a, b):
    """ite(c, a, b); c is an exact bit function or None (join)"""
    r = _merge_val(c, a, b)
    if isinstance(r, TopV) and not (isinstance(a, TopV) or isinstance(b, TopV)):
        _merge_fail[0] += 1
    return r


def _merge_val(c, a, b):
    if a is b:
        return a
    if isinstance(a, W) and isinstance(b, W) and a.width == b.width:
        if a.val is not None and a.val == b.val:
            return a
        return W(a.width, bits=[B.bite(c, x, y) for x, y in zip(a.all_bits(), b.all_bits())], signed=a.signed)
    if isinstance(a, Agg) and isinstance(b, Agg):
        if a.kind == b.kind and a.key == b.key and a.variant == b.variant and len(a.fields) == len(b.fields):
            return Agg(a.kind, a.key, a.variant, [merge_val(c, x, y) for x, y in zip(a.fields, b.fields)])
        return TopV("merge variants")
    if isinstance(a, Arr) and isinstance(b, Arr) and len(a.elems) == len(b.elems):
        return Arr([merge_val(c, x, y) for x, y in zip(a.elems, b.elems)])
    if isinstance(a, Ptr) and isinstance(b, Ptr):
        return a if a == b else TopV("merge ptr")
    if isinstance(a, CS) or isinstance(b, CS):
        if isinstance(a, CS) and isinstance(b, CS) and a.clauses == b.clauses and a.neg == b.neg:
            return a
        return TopV("merge cs")
    if isinstance(a, Opaque) and isinstance(b, Opaque) and a.kind == b.kind and len(a.data) == len(b.data):
        return Opaque(a.kind, [merge_val(c, x, y) for x, y in zip(a.data, b.data)])
    if isinstance(a, TopV) and isinstance(b, TopV):
        return a
    return TopV("merge")


def merge_states(c, sa, sb):
    mem = {}
    for k, va in sa.mem.items():
        vb = sb.mem.get(k)
        if vb is None:
            continue  # cell created in one branch only: dead at the join
        mem[k] = va if va is vb else merge_val(c, va, vb)
    return State(mem)


class Outcome(object):
    __slots__ = ("kind", "state", "pc", "value", "info")

    def __init__(self, kind, state, pc, value=None, info=None):
        self.kind = kind    # 'stop' | 'return' | 'panic'
        self.state = state
        self.pc = pc        # tuple of conditions (Boolean values) that hold on this path
        self.value = value
        self.info = info

    def __repr__(self):
        return "Outcome(%s, pc=%d, %r, %r)" % (self.kind, len(self.pc), self.value, self.info)


class Frame(object):
    __slots__ = ("body", "mir", "env", "locals", "fn_path", "depth", "ipdom")

    def __init__(self, body, mir, env, depth):
        self.body = body
        self.mir = mir
        self.env = env
        self.depth = depth
        self.locals = [new_cell() for _ in mir["locals"]]
        self.fn_path = body["path"]


# ------------------------------------------------------------------------------------------
# CFG helper: immediate post-dominators (cleanup blocks ignored)
# ------------------------------------------------------------------------------------------
def successors(blk, with_cleanup=False):
    t = blk["term"]
    k = t["k"]
    if k == "goto":
        return [t["t"]]
    if k == "switch":
        return [x[1] for x in t["arms"]] + [t["otherwise"]]
    if k in ("call",):
        return [t["t"]] if t["t"] is not None else []
    if k in ("assert", "drop"):
        return [t["t"]]
    return []


_ipdom_cache = {}


def ipdoms(mir):
    key = id(mir)
    if key in _ipdom_cache:
        return _ipdom_cache[key]
    n = len(mir["blocks"])
    EXIT = n
    succ = [successors(b) if not b["cleanup"] else [] for b in mir["blocks"]]
    for i, s in enumerate(succ):
        if not s:
            succ[i] = [EXIT]
    succ.append([])
    pred = [[] for _ in range(n + 1)]
    for i, s in enumerate(succ):
        for j in s:
            pred[j].append(i)
    # reverse post-order on the reversed graph from EXIT
    order = []
    seen = set()

    def dfs(u):
        stack = [(u, iter(pred[u]))]
        seen.add(u)
        while stack:
            node, it = stack[-1]
            adv = False
            for v in it:
                if v not in seen:
                    seen.add(v)
                    stack.append((v, iter(pred[v])))
                    adv = True
                    break
            if not adv:
                order.append(node)
                stack.pop()

    dfs(EXIT)
    rpo = list(reversed(order))
    idx = {b: i for i, b in enumerate(rpo)}
    idom = {EXIT: EXIT}

    def intersect(a, b):
        while a != b:
            while idx[a] > idx[b]:
                a = idom[a]
            while idx[b] > idx[a]:
                b = idom[b]
        return a

    changed = True
    while changed:
        changed = False
        for b in rpo[1:]:
            cands = [s for s in succ[b] if s in idom]
            if not cands:
                continue
            new = cands[0]
            for s in cands[1:]:
                new = intersect(new, s)
            if idom.get(b) != new:
                idom[b] = new
                changed = True
    res = [idom.get(i, EXIT) for i in range(n)]
    _ipdom_cache[key] = res
    return res


# ------------------------------------------------------------------------------------------
# interpreter
# ------------------------------------------------------------------------------------------
# wall-clock deadline of the whole check (set by bin/check from the tier): once passed, every further interpretation
# ends as UNDECIDED - a rewrite on which the interpreter's paths explode costs minutes, never hours, and never a verdict
DEADLINE = [None]


class Interp(object):
    def __init__(self, facts, max_steps=500000, max_paths=512):
        self.facts = facts
        self.max_steps = max_steps
        self.max_paths = max_paths
        self.steps = 0
        self.rng_calls = 0
        self.events = []         # profile-dependent sites met: (kind, fn, span, cond value, pc)
        self.promoted_cache = {}
        self.trace_calls = []    # (depth, callee path) in call order
        self.summaries_used = set()
        self.uf_used = []
        self.opaque_fns = {}     # key -> python callable(interp, frame, args, state) for rule-specific stubs
        from . import stdmodel
        self.std = stdmodel

    # ------------------------------------------------------------------ types
    def ty_width(self, ty, env):
        k = ty["k"]
        if k in ("uint", "int"):
            return ty["w"], k == "int"
        if k == "bool":
            return 1, False
        if k == "char":
            return 32, False
        return None, False

    def const_param(self, ct, env):
        if ct["k"] == "int":
            return ct["v"]
        if ct["k"] == "param":
            v = env.get(ct["name"])
            if v is None:
                raise Undecided("unbound const param %s" % ct["name"])
            return v
        raise Undecided("const %r" % ct)

    def value_from_const(self, ty, val, env):
        """build a Value from an evaluated constant (nested lists)"""
        k = ty["k"]
        if k in ("uint", "int", "bool", "char"):
            w, sg = self.ty_width(ty, env)
            return W(w, val=int(val), signed=sg)
        if k == "array":
            return Arr([self.value_from_const(ty["t"], x, env) for x in val])
        if k == "tuple" and not ty["ts"]:
            return UNIT
        if k == "ref":
            inner = ty["t"]
            if inner["k"] == "str":
                return Opaque("str", (val,))
            cell = new_cell()
            if inner["k"] == "slice":
                arr = Arr([self.value_from_const(inner["t"], x, env) for x in val])
                self._const_mem[cell] = arr
                return Ptr(cell, (), (0, len(arr.elems)))
            self._const_mem[cell] = self.value_from_const(inner, val, env)
            return Ptr(cell, ())
        raise Undecided("constant of type %s" % ty["s"])

    _const_mem = {}

    # ------------------------------------------------------------------ memory
    def read_cell(self, st, cell):
        v = st.mem.get(cell)
        if v is None:
            v = self._const_mem.get(cell)
            if v is None:
                return UNINIT
        return v

    def lvalue(self, fr, st, place):
        """-> (cell, path, sl_start) ; sl_start is the offset of a slice window for Index"""
        cell = fr.locals[place["l"]]
        path = ()
        off = 0
        for e in place["p"]:
            k = e["k"]
            if k == "deref":
                pv = get_path(self.read_cell(st, cell), path)
                if isinstance(pv, Opaque) and pv.kind in ("str", "string", "bstr") and e is place["p"][-1]:
                    raise _StrDeref(pv)
                if not isinstance(pv, Ptr):
                    raise Undecided("deref of %r in %s" % (pv, fr.fn_path))
                cell, path = pv.cell, pv.path
                off = pv.sl[0] if pv.sl else 0
            elif k == "field":
                cur = get_path(self.read_cell(st, cell), path)
                if isinstance(cur, Ptr):
                    continue  # Box / Vec internals
                if isinstance(cur, Opaque) and cur.kind == "uninit":
                    continue  # MaybeUninit / ManuallyDrop wrappers are transparent
                path = path + (e["i"],)
                off = 0
            elif k == "index":
                iv = self.read_cell(st, fr.locals[e["l"]])
                if not (isinstance(iv, W) and iv.val is not None):
                    raise Undecided("symbolic index in %s" % fr.fn_path)
                path = path + (off + iv.val,)
                off = 0
            elif k == "cindex":
                if e["from_end"]:
                    raise Undecided("cindex from end")
                path = path + (off + e["off"],)
                off = 0
            elif k == "downcast":
                cur = get_path(self.read_cell(st, cell), path)
                if isinstance(cur, Agg) and cur.variant != e["v"]:
                    raise Undecided("downcast to inactive variant in %s" % fr.fn_path)
            else:
                raise Undecided("projection %s" % k)
        return cell, path, off

    def read_place(self, fr, st, place):
        proj = place["p"]
        if proj and proj[-1]["k"] == "index":
            iv = self.read_cell(st, fr.locals[proj[-1]["l"]])
            if isinstance(iv, W) and iv.val is None:
                return self.read_symbolic_index(fr, st, place, iv)
        cell, path, _ = self.lvalue(fr, st, place)
        return get_path(self.read_cell(st, cell), path)

    def read_symbolic_index(self, fr, st, place, iv):
        """table[i] with a symbolic index whose unknown bits are few (a digit table indexed by a nibble): the element
        as a multiplexer over the possible index values (the bounds check precedes the access in MIR)"""
        bits = iv.all_bits()
        if any(b is None for b in bits):
            raise Undecided("symbolic index in %s" % fr.fn_path)
        free = [k for k, b in enumerate(bits) if b[0]]
        if len(free) > 6:
            raise Undecided("symbolic index in %s" % fr.fn_path)
        base = sum(1 << k for k, b in enumerate(bits) if not b[0] and b[1])
        cell, path, off = self.lvalue(fr, st, dict(l=place["l"], p=place["p"][:-1]))
        cont = get_path(self.read_cell(st, cell), path)
        n = len(cont.elems) if isinstance(cont, Arr) else None
        if n is None:
            raise Undecided("symbolic index into %r" % (cont,))
        out = None
        width = None
        for r_ in range(1 << len(free)):
            idx = base + sum(1 << free[j] for j in range(len(free)) if (r_ >> j) & 1)
            if off + idx >= n:
                continue
            e = cont.elems[off + idx]
            if not isinstance(e, W):
                raise Undecided("symbolic index over non-integer elements")
            sel = ONE
            for j, k in enumerate(free):
                sel = B.band(sel, bits[k] if (r_ >> j) & 1 else B.bnot(bits[k]))
            width = e.width
            eb = e.all_bits()
            cur = [B.band(sel, x) for x in eb]
            out = cur if out is None else [B.bor(x, y) for x, y in zip(out, cur)]
        if out is None:
            raise Undecided("symbolic index out of range in %s" % fr.fn_path)
        return W(width, bits=out)

    def write_place(self, fr, st, place, v):
        cell, path, _ = self.lvalue(fr, st, place)
        if not path:
            st.mem[cell] = v
        else:
            st.mem[cell] = set_path(self.read_cell(st, cell), path, v)

    def read_ptr(self, st, p):
        return get_path(self.read_cell(st, p.cell), p.path)

    def write_ptr(self, st, p, v):
        if not p.path:
            st.mem[p.cell] = v
        else:
            st.mem[p.cell] = set_path(self.read_cell(st, p.cell), p.path, v)

    def slice_elems(self, st, p):
        """elements of the slice/array a pointer designates"""
        arr = self.read_ptr(st, p)
        if not isinstance(arr, Arr):
            raise Undecided("slice view of %r" % (arr,))
        if p.sl is None:
            return arr.elems
        return arr.elems[p.sl[0]: p.sl[0] + p.sl[1]]

    def slice_len(self, st, p):
        if p.sl is not None:
            return p.sl[1]
        arr = self.read_ptr(st, p)
        if isinstance(arr, Arr):
            return len(arr.elems)
        raise Undecided("len of %r" % (arr,))

    def elem_ptr(self, p, i):
        start = p.sl[0] if p.sl else 0
        return Ptr(p.cell, p.path + (start + i,))

    def write_slice(self, st, p, elems):
        arr = self.read_ptr(st, p)
        start = p.sl[0] if p.sl else 0
        e = list(arr.elems)
        e[start:start + len(elems)] = list(elems)
        self.write_ptr(st, p, Arr(e))

    # ------------------------------------------------------------------ operands
    def operand(self, fr, st, o):
        k = o["k"]
        if k in ("copy", "move"):
            return self.read_place(fr, st, o["place"])
        if k == "const":
            ty = o["ty"]
            if "ct" in o:
                v = self.const_param(o["ct"], fr.env)
                w, sg = self.ty_width(ty, fr.env)
                return W(w, val=v, signed=sg)
            if o.get("fn"):
                return Opaque("fndef", (ty.get("key"), ty.get("path"), tuple(ty.get("args") or ())))
            if "uneval" in o:
                u = o["uneval"]
                if u["promoted"] is not None:
                    return self.eval_promoted(fr, u)
                if u["path"].endswith("SizedTypeProperties::ALIGN") or u["path"].endswith("SizedTypeProperties::SIZE"):
                    # only feed the debug-build pointer checks of vec![..]; any non-zero power of two works
                    return W(ty.get("w", 64), val=1)
                if ty.get("path") == "std::thread::LocalKey":
                    # a `thread_local!` key: per-thread storage, created by the macro's init function on first use
                    return Opaque("localkey", (u["path"], u["key"]))
                if o.get("val") is not None:
                    ck = ("const", u["key"])
                    if ck not in self.promoted_cache:
                        self.promoted_cache[ck] = self.value_from_const(ty, o["val"], fr.env)
                    return self.promoted_cache[ck]
                # a generic associated const (e.g. a per-N mask): interpret its initialiser under the caller's parameters
                cb = self.facts.body(u["key"])
                if cb is not None and cb.get("mir") is not None and not (cb.get("sig") or {}).get("inputs"):
                    envk = tuple(sorted((k_, v_) for k_, v_ in fr.env.items() if isinstance(v_, int)))
                    ck = ("gconst", u["key"], envk)
                    if ck not in self.promoted_cache:
                        outs = self.call_mir(cb, cb["mir"], [], State(), dict(fr.env), fr.depth + 1, ())
                        if len(outs) != 1 or outs[0].kind != "return" or not isinstance(outs[0].value, W):
                            raise Undecided("unevaluated const %s" % u["path"])
                        self.promoted_cache[ck] = outs[0].value
                    return self.promoted_cache[ck]
                raise Undecided("unevaluated const %s" % u["path"])
            if ty["k"] == "tuple" and not ty["ts"]:
                return UNIT
            if ty["k"] == "closure":
                return Agg("closure", ty["key"], 0, ())
            if ty["k"] == "adt" and o.get("val") == []:
                return Agg("adt", ty["path"], 0, ())
            if o.get("val") is None:
                raise Undecided("opaque constant of type %s" % ty["s"])
            return self.value_from_const(ty, o["val"], fr.env)
        raise Undecided("operand kind %s" % k)

    def eval_promoted(self, fr, u):
        key = (u["key"], u["promoted"])
        if key in self.promoted_cache:
            return self.promoted_cache[key]
        body = self.facts.body(u["key"])
        if body is None:
            raise Undecided("promoted of unknown body %s" % u["key"])
        pm = body["promoted"][u["promoted"]]
        pbody = dict(path=body["path"] + "::promoted[%d]" % u["promoted"], key=body["key"], generics=[])
        st = State()
        outs = self.call_mir(pbody, pm, [], st, fr.env, fr.depth + 1, ())
        rets = [o for o in outs if o.kind == "return"]
        if len(rets) != 1:
            raise Undecided("promoted evaluation")
        # keep the promoted's memory alive as constant memory
        for c, v in rets[0].state.mem.items():
            self._const_mem[c] = v
        self.promoted_cache[key] = rets[0].value
        return rets[0].value

    # ------------------------------------------------------------------ rvalues
    def rvalue(self, fr, st, rv, dest_ty):
        k = rv["k"]
        if k == "use":
            return self.operand(fr, st, rv["op"])
        if k == "ref" or k == "rawptr":
            try:
                cell, path, off = self.lvalue(fr, st, rv["place"])
            except _StrDeref as e:
                return e.v
            # re-borrow of a slice: keep the window of the pointer we came through
            pl = rv["place"]
            if pl["p"] and pl["p"][-1]["k"] == "deref":
                inner = dict(l=pl["l"], p=pl["p"][:-1])
                pv = self.read_place(fr, st, inner)
                if isinstance(pv, Ptr):
                    return Ptr(pv.cell, pv.path, pv.sl, "ref")
                if isinstance(pv, Opaque) and pv.kind in ("str", "string", "bstr"):
                    return pv
            return Ptr(cell, path)
        if k == "copy_for_deref":
            return self.read_place(fr, st, rv["place"])
        if k == "binop":
            a = self.operand(fr, st, rv["a"])
            b = self.operand(fr, st, rv["b"])
            return self.binop(rv["op"], a, b, fr)
        if k == "unop":
            a = self.operand(fr, st, rv["a"])
            op = rv["op"]
            if op == "Not":
                return b_not(a)
            if op == "Neg":
                if isinstance(a, W) and a.val is not None:
                    return W(a.width, val=-a.val, signed=a.signed)
                raise Undecided("symbolic neg")
            if op == "PtrMetadata":
                if isinstance(a, Ptr):
                    return wconst(64, self.slice_len(st, a))
                if isinstance(a, Opaque) and a.kind in ("str", "bstr"):
                    return a.data[1] if len(a.data) > 1 else wconst(64, len(a.data[0]))
                raise Undecided("PtrMetadata of %r" % (a,))
            raise Undecided("unop " + op)
        if k == "cast":
            v = self.operand(fr, st, rv["op"])
            kind = rv["kind"]
            ty = rv["ty"]
            if kind == "IntToInt":
                w, sg = self.ty_width(ty, fr.env)
                if not isinstance(v, W):
                    if isinstance(v, CS):
                        raise Undecided("cast of clause-set bool")
                    return wtop(w, sg)
                if v.val is not None:
                    return W(w, val=v.sval(), signed=sg)
                bits = v.bits[:w]
                if len(bits) < w:
                    fill = v.bits[-1] if v.signed else ZERO
                    bits = bits + [fill] * (w - len(bits))
                return W(w, bits=bits, signed=sg)
            if kind.startswith("PointerCoercion(Unsize"):
                if isinstance(v, Ptr) and v.sl is None:
                    target = self.read_ptr(st, v)
                    if isinstance(target, Arr):
                        return Ptr(v.cell, v.path, (0, len(target.elems)), v.kind)
                return v
            if kind == "Transmute" and isinstance(v, Ptr) and ty["k"] in ("uint", "int"):
                # address of an allocation: non-null and maximally aligned (only used by debug pointer checks)
                return W(ty["w"], val=0x10000 * (v.cell + 1))
            if kind in ("Transmute", "PtrToPtr", "Subtype") or kind.startswith("PointerCoercion"):
                return v
            raise Undecided("cast " + kind)
        if k == "aggregate":
            a = rv["agg"]
            ops = [self.operand(fr, st, o) for o in rv["ops"]]
            if a["k"] == "tuple":
                return Agg("tuple", None, 0, ops)
            if a["k"] == "array":
                return Arr(ops)
            if a["k"] == "adt":
                return Agg("adt", a["path"], a["variant"], ops)
            if a["k"] == "closure":
                return Agg("closure", a["key"], 0, ops)
            raise Undecided("aggregate " + a["k"])
        if k == "repeat":
            v = self.operand(fr, st, rv["op"])
            n = self.const_param(rv["count"], fr.env)
            return Arr([v] * n)
        if k == "discr":
            v = self.read_place(fr, st, rv["place"])
            if isinstance(v, Agg):
                if v.key == ORDERING:
                    return W(8, val=v.variant - 1, signed=True)
                return W(64, val=v.variant, signed=True)
            raise Undecided("discriminant of %r in %s" % (v, fr.fn_path))
        raise Undecided("rvalue " + k)

    def binop(self, op, a, b, fr=None):
        if op in ("Eq", "Ne") and not (isinstance(a, W) and isinstance(b, W)):
            # comparisons of non-integers (bools as CS, unit ...)
            if isinstance(a, Agg) and isinstance(b, Agg) and not a.fields and not b.fields:
                r = wbool(a.variant == b.variant)
                return r if op == "Eq" else b_not(r)
            return TopV("eq on " + type(a).__name__)
        if isinstance(a, (CS, TopV)) or isinstance(b, (CS, TopV)):
            if op == "BitAnd":
                return b_and(a, b)
            if op == "BitOr":
                return b_or(a, b)
            return TopV("binop %s on non-word" % op)
        if not (isinstance(a, W) and isinstance(b, W)):
            raise Undecided("binop %s on %r, %r" % (op, a, b))
        if op in ("BitAnd", "BitOr", "BitXor"):
            return w_bitwise(op, a, b)
        if op in ("Shl", "Shr", "ShlUnchecked", "ShrUnchecked"):
            if b.val is None:
                # barrel shifter on the exact amount bits (amount taken modulo the width, as MIR Shl/Shr do)
                nb = (a.width - 1).bit_length()
                if any(x is None for x in b.bits[:nb]):
                    return wtop(a.width, a.signed)
                cur = a
                for k in range(nb):
                    sk = b.bits[k]
                    if sk == ZERO:
                        continue
                    sh = w_shl(cur, 1 << k) if op.startswith("Shl") else w_shr(cur, 1 << k)
                    cur = W(a.width, bits=[B.bite(sk, x, y) for x, y in zip(sh.all_bits(), cur.all_bits())], signed=a.signed)
                return cur
            return w_shl(a, b.val) if op.startswith("Shl") else w_shr(a, b.val)
        if op in ("Add", "AddUnchecked"):
            return w_add(a, b)[0]
        if op in ("Sub", "SubUnchecked"):
            return w_sub(a, b)[0]
        if op == "AddWithOverflow":
            if a.signed:
                if a.val is not None and b.val is not None:
                    s = a.sval() + b.sval()
                    ov = not (-(1 << (a.width - 1)) <= s < (1 << (a.width - 1)))
                    return Agg("tuple", None, 0, (W(a.width, val=s, signed=True), wbool(ov)))
                raise Undecided("signed symbolic add")
            s, c = w_add(a, b)
            return Agg("tuple", None, 0, (s, W(1, bits=[c])))
        if op == "SubWithOverflow":
            if a.signed:
                if a.val is not None and b.val is not None:
                    s = a.sval() - b.sval()
                    ov = not (-(1 << (a.width - 1)) <= s < (1 << (a.width - 1)))
                    return Agg("tuple", None, 0, (W(a.width, val=s, signed=True), wbool(ov)))
                raise Undecided("signed symbolic sub")
            s, c = w_sub(a, b)
            return Agg("tuple", None, 0, (s, W(1, bits=[c])))
        if op in ("Mul", "MulWithOverflow", "MulUnchecked"):
            if a.val is not None and b.val is not None:
                p = a.sval() * b.sval() if a.signed else a.val * b.val
                r = W(a.width, val=p, signed=a.signed)
                if op == "MulWithOverflow":
                    ov = (p != (r.sval() if a.signed else r.val))
                    return Agg("tuple", None, 0, (r, wbool(ov)))
                return r
            if not a.signed and (a.val is not None or b.val is not None):
                # unsigned multiplication by a constant: shift-and-add in double width (exact bit functions);
                # the overflow flag is "some bit of the high half is set"
                sym, k = (b, a.val) if a.val is not None else (a, b.val)
                w2 = 2 * a.width
                wide = W(w2, bits=sym.all_bits() + [ZERO] * a.width)
                acc = W(w2, val=0)
                for sh in range(a.width):
                    if (k >> sh) & 1:
                        acc = w_add(acc, w_shl(wide, sh))[0]
                bits = acc.all_bits()
                lo = W(a.width, bits=bits[:a.width]) if acc.val is None else W(a.width, val=acc.val & ((1 << a.width) - 1))
                if op == "MulWithOverflow":
                    ov = ZERO
                    for x in bits[a.width:]:
                        ov = B.bor(ov, x)
                    return Agg("tuple", None, 0, (lo, W(1, bits=[ov]) if ov is None or ov[0] else wbool(ov[1])))
                return lo
            if op == "MulWithOverflow":
                return Agg("tuple", None, 0, (wtop(a.width, a.signed), wtop(1)))
            return wtop(a.width, a.signed)
        if op in ("Div", "Rem"):
            if a.val is not None and b.val is not None and b.val != 0:
                x, y = (a.sval(), b.sval()) if a.signed else (a.val, b.val)
                q = abs(x) // abs(y) * (1 if (x < 0) == (y < 0) else -1)
                r = x - q * y
                return W(a.width, val=q if op == "Div" else r, signed=a.signed)
            if op == "Rem" and b.val == 2:
                return W(a.width, bits=[a.bit(0)] + [ZERO] * (a.width - 1), signed=a.signed)
            return wtop(a.width, a.signed)
        if op == "Eq":
            return w_eq(a, b)
        if op == "Ne":
            return b_not(w_eq(a, b))
        if op in ("Lt", "Le", "Gt", "Ge"):
            if a.val is not None and b.val is not None:
                x, y = (a.sval(), b.sval()) if a.signed else (a.val, b.val)
                return wbool({"Lt": x < y, "Le": x <= y, "Gt": x > y, "Ge": x >= y}[op])
            r = self.sym_compare(op, a, b)
            return r
        if op == "Cmp":
            if a.val is not None and b.val is not None:
                x, y = (a.sval(), b.sval()) if a.signed else (a.val, b.val)
                return ordering((x > y) - (x < y))
            raise Undecided("symbolic three-way compare")
        raise Undecided("binop " + op)

    def sym_compare(self, op, a, b):
        """unsigned comparison of symbolic words: exact when the borrow chain stays in bounds"""
        if a.signed:
            return wtop(1)
        # a < b  <=> borrow out of a - b
        x, y, neg = (a, b, False) if op == "Lt" else ((a, b, True) if op == "Ge" else ((b, a, False) if op == "Gt" else (b, a, True)))
        _, bo = w_sub(x, y)
        if bo is None and ULT_MODE[0]:
            # comparison-recognition mode only (harness.lex_order): "x < y" of two wide symbolic words becomes a named
            # atom whose meaning is kept in ULT; nothing but pattern matching is done with it
            kx, ky = tuple(x.all_bits()), tuple(y.all_bits())
            nm = "ult#%d" % ULT.setdefault((kx, ky), len(ULT))
            bo = B.atom(nm)
            ULT_OF[bo] = (kx, ky)
        return W(1, bits=[B.bnot(bo) if neg else bo])

    # ------------------------------------------------------------------ execution
    def call_body(self, body, args, st, env=None, depth=0, pc=()):
        if body.get("mir") is None:
            raise Undecided("no MIR for " + body["path"])
        return self.call_mir(body, body["mir"], args, st, env or {}, depth, pc)

    def call_mir(self, body, mir, args, st, env, depth, pc):
        if depth > 60:
            raise Undecided("call depth")
        fr = Frame(body, mir, env, depth)
        fr.ipdom = ipdoms(mir)
        if len(args) != mir["arg_count"]:
            raise Undecided("arity mismatch calling %s" % body["path"])
        for i, a in enumerate(args):
            st.mem[fr.locals[i + 1]] = a
        outs = self.run(fr, 0, None, st, pc)
        res = []
        for o in outs:
            if o.kind == "stop":
                raise Undecided("internal: stop escaped")
            res.append(o)
        return res

    def cond_kind(self, v):
        if isinstance(v, W):
            if v.val is not None:
                return "concrete"
            if v.width == 1 and v.bits[0] is not None:
                return "bit"
            return "top"
        return "split"

    def run(self, fr, bb, stop, st, pc):
        """execute from block bb until block `stop` (exclusive); returns list of Outcome"""
        blocks = fr.mir["blocks"]
        results = []
        while True:
            if bb == stop:
                results.append(Outcome("stop", st, pc))
                return results
            self.steps += 1
            if self.steps > self.max_steps:
                raise Undecided("step budget")
            if not (self.steps & 255) and DEADLINE[0] is not None:
                import time as _time
                if _time.time() > DEADLINE[0]:
                    raise Undecided("wall-clock budget of the check")
            blk = blocks[bb]
            for s in blk["stmts"]:
                k = s["k"]
                if k == "assign":
                    v = self.rvalue(fr, st, s["rv"], None)
                    self.write_place(fr, st, s["place"], v)
                elif k == "set_discr":
                    raise Undecided("set_discriminant")
            t = blk["term"]
            k = t["k"]
            if k == "goto":
                bb = t["t"]
            elif k == "drop":
                bb = t["t"]
            elif k == "return":
                results.append(Outcome("return", st, pc, self.read_cell(st, fr.locals[0])))
                return results
            elif k == "unreachable":
                # the compiler's decision trees contain arms that earlier tests exclude: such a path is dead
                from .harness import pc_status
                if pc and pc_status(pc)[0] == "unsat":
                    return results
                raise Undecided("reached unreachable in %s" % fr.fn_path)
            elif k == "switch":
                d = self.operand(fr, st, t["discr"])
                ck = self.cond_kind(d)
                if ck == "concrete":
                    dv = d.val
                    tgt = t["otherwise"]
                    for v, tg in t["arms"]:
                        if v == dv:
                            tgt = tg
                            break
                    bb = tgt
                    continue
                results.extend(self.branch(fr, bb, t, d, ck, stop, st, pc))
                return results
            elif k == "assert":
                c = self.operand(fr, st, t["cond"])
                exp = t["expected"]
                ok = c if exp else b_not(c)
                prof = t["msg"].startswith("Overflow")
                if isinstance(ok, W) and ok.val is not None:
                    if ok.val:
                        if prof:
                            self.events.append(("overflow-ok", fr.fn_path, t["span"], t["msg"], None, pc))
                        bb = t["t"]
                        continue
                    info = dict(kind="assert", msg=t["msg"], fn=fr.fn_path, span=t["span"], profile_dependent=prof, definite=True)
                    results.append(Outcome("panic", st, pc, None, info))
                    return results
                # symbolic: a panic path and a continuing path
                info = dict(kind="assert", msg=t["msg"], fn=fr.fn_path, span=t["span"], profile_dependent=prof, definite=False)
                if not (self.prune and self.space is not None and not self.feasible(pc + (b_not(ok),))):
                    results.append(Outcome("panic", st.fork(), pc + (b_not(ok),), None, info))
                pc = pc + (ok,)
                bb = t["t"]
            elif k == "call":
                outs = self.do_call(fr, st, t, pc)
                conts = []
                for o in outs:
                    if o.kind == "return":
                        conts.append(o)
                    else:
                        results.append(o)
                if t["t"] is None:
                    return results
                if len(conts) == 1:
                    o = conts[0]
                    st, pc = o.state, o.pc
                    self.write_place(fr, st, t["dest"], o.value)
                    bb = t["t"]
                    continue
                if len(conts) + len(results) > self.max_paths:
                    raise Undecided("path budget")
                for o in conts:
                    self.write_place(fr, o.state, t["dest"], o.value)
                    results.extend(self.run(fr, t["t"], stop, o.state, o.pc))
                return results
            else:
                raise Undecided("terminator %s in %s" % (k, fr.fn_path))

    def branch(self, fr, bb, t, d, ck, stop, st, pc):
        """symbolic switch"""
        results = []
        arms = t["arms"]
        # only boolean-like two-way switches are forked; anything else splits on TOP
        if len(arms) == 1 and arms[0][0] == 0:
            f_tgt, t_tgt = arms[0][1], t["otherwise"]
            cond_true = d
            if isinstance(d, W) and d.width != 1 and d.val is None:
                # `match x { 0 => .., _ => .. }` on a symbolic integer: the condition is "x != 0", a Boolean - not
                # the word itself (whose bitwise complement is not its negation)
                cond_true = self.binop("Ne", d, W(d.width, val=0, signed=d.signed), fr)
                ck = self.cond_kind(cond_true)
                d = cond_true
        else:
            raise Undecided("symbolic multi-way switch in %s" % fr.fn_path)
        join = fr.ipdom[bb]
        if join == len(fr.mir["blocks"]):
            join = None
        if join is not None and stop is not None and join == stop:
            pass
        c_t = cond_true
        c_f = b_not(cond_true)
        feas_t = feas_f = True
        if self.prune and pc and ck in ("bit", "split"):
            # drop a successor that contradicts the conditions already on this path
            feas_t = self.feasible(pc + (c_t,))
            feas_f = self.feasible(pc + (c_f,))
            if feas_t != feas_f:
                return self.run(fr, t_tgt if feas_t else f_tgt, stop, st, pc)
            if not feas_t and self.space is not None:
                return []   # the path itself is already contradictory (exact on the window universe)
        ro_t = self.run(fr, t_tgt, join, st.fork(), pc + (c_t,))
        ro_f = self.run(fr, f_tgt, join, st, pc + (c_f,))
        stops_t = [o for o in ro_t if o.kind == "stop"]
        stops_f = [o for o in ro_f if o.kind == "stop"]
        results.extend(o for o in ro_t if o.kind != "stop")
        results.extend(o for o in ro_f if o.kind != "stop")
        if len(results) > self.max_paths:
            raise Undecided("path budget")
        if join is None:
            return results
        conts = []
        if ck == "bit" and len(stops_t) == 1 and len(stops_f) == 1 and not self.split_all:
            before = _merge_fail[0]
            merged = merge_states(d.bits[0], stops_t[0].state, stops_f[0].state)
            if _merge_fail[0] != before:
                # shapes differ (e.g. enum variants): keep the two paths apart instead of joining to top
                for o in stops_t + stops_f:
                    conts.append((o.state, o.pc))
            else:
                conts.append((merged, pc))
        elif ck == "top" and len(stops_t) == 1 and len(stops_f) == 1 and self.join_on_top:
            merged = merge_states(None, stops_t[0].state, stops_f[0].state)
            conts.append((merged, pc))
        else:
            for o in stops_t + stops_f:
                conts.append((o.state, o.pc))
        if len(conts) == 1:
            results.extend(self.run(fr, join, stop, conts[0][0], conts[0][1]))
        else:
            for s2, pc2 in conts:
                results.extend(self.run(fr, join, stop, s2, pc2))
                if len(results) > self.max_paths:
                    raise Undecided("path budget")
        return results

    space = None   # harness.Space: exact feasibility on a fixed small atom universe

    def feasible(self, pc):
        if self.space is not None:
            m = self.space.pc_mask(pc)
            if m is not None:
                return m != 0
        from .harness import pc_status
        return pc_status(pc)[0] != "unsat"

    join_on_top = False
    split_all = False   # small-window mode: never ite-merge at a join (merged bits would exceed the support bound)
    uf_fallback = False
    call_hook = None
    call_hooks = ()
    memo_pure = False
    _memo = {}

    def call_memo(self, body, args, st, env, fr, pc):
        """pure function of concrete scalars: evaluate once (constant folding), reuse the result"""
        key = (id(self.facts), body["key"], tuple((x.width, x.val) for x in args), tuple(sorted((k, v) for k, v in env.items() if isinstance(v, int))))
        hit = Interp._memo.get(key)
        if hit is None:
            st2 = State()
            outs = self.call_mir(body, body["mir"], args, st2, env, fr.depth + 1, ())
            if len(outs) != 1 or outs[0].kind != "return":
                Interp._memo[key] = "no"
                return self.call_mir(body, body["mir"], args, st, env, fr.depth + 1, pc)
            o = outs[0]
            cells = {}

            def collect(v):
                if isinstance(v, Ptr):
                    if v.cell not in cells and v.cell in o.state.mem:
                        cells[v.cell] = o.state.mem[v.cell]
                        collect(cells[v.cell])
                elif isinstance(v, (Agg,)):
                    for f in v.fields:
                        collect(f)
                elif isinstance(v, Arr):
                    for f in v.elems:
                        collect(f)
            collect(o.value)
            hit = (o.value, cells)
            Interp._memo[key] = hit
        if hit == "no":
            return self.call_mir(body, body["mir"], args, st, env, fr.depth + 1, pc)
        value, cells = hit
        # fresh copies of the cells so that callers may mutate the result
        ren = {c: new_cell() for c in cells}

        def rn(v):
            if isinstance(v, Ptr):
                return Ptr(ren.get(v.cell, v.cell), v.path, v.sl, v.kind)
            if isinstance(v, Agg):
                return Agg(v.kind, v.key, v.variant, [rn(f) for f in v.fields])
            if isinstance(v, Arr):
                return Arr([rn(f) for f in v.elems])
            return v
        for c, content in cells.items():
            st.mem[ren[c]] = rn(content)
        return self.ret(st, pc, rn(value))
    prune = False

    def uf_arg(self, a, st):
        """arguments of an uninterpreted call: pointers are replaced by what they point to"""
        if isinstance(a, Ptr):
            try:
                if a.sl is not None:
                    return Arr(self.slice_elems(st, a))
                return self.read_ptr(st, a)
            except Undecided:
                return TopV("uf arg")
        return a

    # ------------------------------------------------------------------ calls
    def callee_env(self, fr, callee_body, rargs):
        """bind the callee's generic parameters from resolved generic args"""
        env = {}
        gens = callee_body.get("generics") or []
        for g, a in zip(gens, rargs):
            if a["k"] == "const":
                try:
                    env[g["name"]] = self.const_param(a["c"], fr.env)
                except Undecided:
                    pass
            elif a["k"] == "param":
                if a["name"] in fr.env:
                    env[g["name"]] = fr.env[a["name"]]
            else:
                env[g["name"]] = a
        return env

    def do_call(self, fr, st, t, pc):
        fn = t["func"]
        if "indirect" in fn:
            # call through a function pointer: decided when the pointer is a known function item (or closure)
            target = self.operand(fr, st, fn["indirect"])
            args = [self.operand(fr, st, a) for a in t["args"]]
            if isinstance(target, Opaque) and target.kind == "fndef" or (isinstance(target, Agg) and target.kind == "closure"):
                return self.std.call_closure(self, fr, st, pc, target, args)
            raise Undecided("indirect call in %s" % fr.fn_path)
        args = [self.operand(fr, st, a) for a in t["args"]]
        r = fn.get("resolved")
        path = r["path"] if r else fn["path"]
        key = r["key"] if r else fn["key"]
        local = r["local"] if r else fn["local"]
        self.trace_calls.append((fr.depth, path))
        if key in self.opaque_fns:
            return self.opaque_fns[key](self, fr, args, st, pc, t)
        if local and r is not None:
            body = self.facts.body(key)
            if body is None:
                raise Undecided("no body for %s" % path)
            env = self.callee_env(fr, body, r["args"])
            if body["kind"] == "Closure":
                if fn["path"].startswith("std::ops::Fn") and len(args) == 2 and isinstance(args[1], Agg) and args[1].kind == "tuple":
                    # Fn*::call(closure, (a, b, ..)): the closure body takes the arguments untupled
                    args = [args[0]] + list(args[1].fields)
                    first_ty = body["mir"]["locals"][1]["ty"]
                    if first_ty["k"] != "ref" and isinstance(args[0], Ptr):
                        args[0] = self.read_ptr(st, args[0])
                return self.call_closure(body, args, st, fr, pc)
            for hk in ([self.call_hook] if self.call_hook is not None else []) + list(self.call_hooks):
                hooked = hk(self, body, args, st, pc)
                if hooked is not None:
                    return hooked
            if self.memo_pure and args and all(isinstance(x, W) and x.val is not None for x in args):
                return self.call_memo(body, args, st, env, fr, pc)
            if self.uf_fallback and not any(ty["k"] == "ref" and ty["mut"] and ty["t"].get("path") != "std::fmt::Formatter" for ty in (body.get("sig") or {}).get("inputs", [{"k": "ref", "mut": True, "t": {}}])):
                # a callee that only reads its arguments may be kept as an uninterpreted function
                # of its (abstract) arguments when it cannot be modelled
                snap = st.fork()
                steps0 = self.steps
                try:
                    return self.call_mir(body, body["mir"], args, st, env, fr.depth + 1, pc)
                except Undecided as e:
                    self.uf_used.append((path, e.cause))
                    self.steps = steps0
                    st.mem = snap.mem
                    return self.ret(st, pc, Opaque("uf", (path,) + tuple(self.uf_arg(a, st) for a in args)))
            return self.call_mir(body, body["mir"], args, st, env, fr.depth + 1, pc)
        if r is None:
            # trait method on a generic parameter: resolve through the environment
            if fn["path"] in ("std::ops::Fn::call", "std::ops::FnMut::call_mut", "std::ops::FnOnce::call_once"):
                selfty = fn["args"][0]
                if selfty["k"] == "param":
                    selfty = fr.env.get(selfty["name"])
                if selfty and selfty.get("k") == "closure":
                    body = self.facts.body(selfty["key"])
                    clos = args[0]
                    tup = args[1]
                    return self.call_mir(body, body["mir"], [clos] + list(tup.fields), st, dict(fr.env), fr.depth + 1, pc)
                # the type parameter is not bound in the environment: dispatch on the callee *value* (a closure or a
                # function item handed down as `impl Fn..`)
                clos = args[0]
                while isinstance(clos, Ptr):
                    clos = self.read_ptr(st, clos)
                if isinstance(args[1], Agg) and ((isinstance(clos, Agg) and clos.kind == "closure") or (isinstance(clos, Opaque) and clos.kind == "fndef")):
                    from .stdmodel import call_closure as _cc
                    return _cc(self, fr, st, pc, clos, list(args[1].fields))
            raise Undecided("unresolved call %s in %s" % (fn["path"], fr.fn_path))
        # external: std model
        self.summaries_used.add(path)
        return self.std.call(self, fr, st, pc, path, fn, r, args, t)

    def call_closure(self, body, args, st, fr, pc):
        return self.call_mir(body, body["mir"], args, st, dict(fr.env), fr.depth + 1, pc)

    # helpers for std models
    def ret(self, st, pc, v):
        return [Outcome("return", st, pc, v)]

    def panic(self, st, pc, msg, fr, t, definite=True):
        return [Outcome("panic", st, pc, None, dict(kind="std", msg=msg, fn=fr.fn_path, span=t["span"], profile_dependent=False, definite=definite))]
