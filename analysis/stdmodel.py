"""Summaries of the std / rand functions volute calls (the trusted library model of E4).

Each summary is keyed by the *resolved* callee path printed by rustc for this sealed toolchain.
An unlisted callee raises Undecided("unmodelled:<path>").
"""
from . import bits as B
from .absint import (W, CS, Agg, Arr, Ptr, Opaque, TopV, UNIT, NONE, OPTION, RESULT, RANGE, Undecided,
                     some, ordering, wconst, wbool, wtop, w_bitwise, w_eq, b_not, b_and, mk_cs, new_cell, Outcome)
from .bits import ZERO, ONE

USIZE = 64


def usize(v):
    return wconst(USIZE, v)


# ---------------------------------------------------------------------------------- iterators
# SliceIter: Opaque('slice_iter', (ptr, lo, hi, mutable))  lo/hi python ints stored as W
# Enumerate: Opaque('enumerate', (inner, count))
# Rev:       Opaque('rev', (inner,))
# Zip:       Opaque('zip', (a, b))
# Range is the real std struct: Agg('adt', RANGE, 0, (start, end))

def mk_slice_iter(interp, st, p, mutable):
    n = interp.slice_len(st, p)
    return Opaque("slice_iter", (p, usize(0), usize(n), wbool(mutable)))


def iter_next(interp, st, it, back=False):
    """-> (new iterator value, item or None)"""
    k = it.kind if isinstance(it, Opaque) else None
    if k == "slice_iter":
        p, lo, hi, mut = it.data
        if lo.val >= hi.val:
            return it, None
        if back:
            item = interp.elem_ptr(p, hi.val - 1)
            return Opaque("slice_iter", (p, lo, usize(hi.val - 1), mut)), item
        item = interp.elem_ptr(p, lo.val)
        return Opaque("slice_iter", (p, usize(lo.val + 1), hi, mut)), item
    if k == "rev":
        inner, item = iter_next(interp, st, it.data[0], not back)
        return Opaque("rev", (inner,)), item
    if k == "enumerate":
        if back:
            raise Undecided("enumerate next_back")
        inner, item = iter_next(interp, st, it.data[0])
        if item is None:
            return Opaque("enumerate", (inner, it.data[1])), None
        c = it.data[1]
        return Opaque("enumerate", (inner, usize(c.val + 1))), Agg("tuple", None, 0, (c, item))
    if k == "zip":
        if back:
            # DoubleEndedIterator for Zip needs ExactSize halves: equal remaining lengths here
            xa, xb = it.data
            if all(isinstance(x_, Opaque) and x_.kind == "slice_iter" for x_ in (xa, xb)):
                na, nb = xa.data[2].val - xa.data[1].val, xb.data[2].val - xb.data[1].val
                while na > nb:
                    xa, _ = iter_next(interp, st, xa, True)
                    na -= 1
                while nb > na:
                    xb, _ = iter_next(interp, st, xb, True)
                    nb -= 1
                a2, x = iter_next(interp, st, xa, True)
                if x is None:
                    return Opaque("zip", (a2, xb)), None
                b2, y = iter_next(interp, st, xb, True)
                return Opaque("zip", (a2, b2)), Agg("tuple", None, 0, (x, y))
            raise Undecided("zip next_back")
        a, x = iter_next(interp, st, it.data[0])
        if x is None:
            return Opaque("zip", (a, it.data[1])), None
        b, y = iter_next(interp, st, it.data[1])
        if y is None:
            return Opaque("zip", (a, b)), None
        return Opaque("zip", (a, b)), Agg("tuple", None, 0, (x, y))
    if isinstance(it, Agg) and it.key == RANGE:
        s, e = it.fields
        if s.val is None or e.val is None:
            raise Undecided("symbolic range bounds")
        if s.val >= e.val:
            return it, None
        if back:
            ne = W(e.width, val=e.val - 1, signed=e.signed)
            return Agg("adt", RANGE, 0, (s, ne)), ne
        return Agg("adt", RANGE, 0, (W(s.width, val=s.val + 1, signed=s.signed), e)), s
    raise Undecided("next on %r" % (it,))


def load_items(interp, st, item):
    """dereference an iterator item that is a pointer (for comparisons)"""
    if isinstance(item, Ptr):
        return interp.read_ptr(st, item)
    return item


# ---------------------------------------------------------------------------------- dispatch
def call(interp, fr, st, pc, path, fn, r, args, t):
    h = TABLE.get(path)
    if h is None:
        h = _int_dispatch(path)
    if h is None:
        h = _prim_ops_dispatch(path)
    if h is None:
        h = _iter_generic_dispatch(path)
    if h is None:
        h = _from_int_dispatch(path)
    if h is None:
        for pref, hh in PREFIX:
            if path.startswith(pref):
                h = hh
                break
    if h is None:
        raise Undecided("unmodelled:" + path)
    return h(interp, fr, st, pc, args, t, fn, r)


def _ret(interp, st, pc, v):
    return [Outcome("return", st, pc, v)]


def box_as_slice(i, fr, st, pc, a, t, fn, r):
    # &Box<[T]> / &mut Box<[T]>  ->  &[T]
    b = i.read_ptr(st, a[0])
    if not isinstance(b, Ptr):
        raise Undecided("as_ref on %r" % (b,))
    return _ret(i, st, pc, Ptr(b.cell, b.path, b.sl, "ref"))


def array_as_slice(i, fr, st, pc, a, t, fn, r):
    p = a[0]
    n = i.slice_len(st, p)
    return _ret(i, st, pc, Ptr(p.cell, p.path, (p.sl[0] if p.sl else 0, n), "ref"))


def slice_len(i, fr, st, pc, a, t, fn, r):
    if isinstance(a[0], Opaque) and a[0].kind == "str":
        return str_len(i, fr, st, pc, a, t, fn, r)
    return _ret(i, st, pc, usize(i.slice_len(st, a[0])))


def slice_iter(i, fr, st, pc, a, t, fn, r):
    return _ret(i, st, pc, mk_slice_iter(i, st, a[0], False))


def slice_iter_mut(i, fr, st, pc, a, t, fn, r):
    return _ret(i, st, pc, mk_slice_iter(i, st, a[0], True))


def identity(i, fr, st, pc, a, t, fn, r):
    return _ret(i, st, pc, a[0])


def vec_into_iter_ref(i, fr, st, pc, a, t, fn, r):
    v = i.read_ptr(st, a[0])
    if isinstance(v, Ptr):
        return _ret(i, st, pc, mk_slice_iter(i, st, Ptr(v.cell, v.path, v.sl), False))
    raise Undecided("into_iter on %r" % (v,))


def generic_next(i, fr, st, pc, a, t, fn, r):
    itp = a[0]
    it = i.read_ptr(st, itp)
    new, item = iter_next(i, st, it)
    i.write_ptr(st, itp, new)
    return _ret(i, st, pc, NONE if item is None else some(item))


def it_rev(i, fr, st, pc, a, t, fn, r):
    return _ret(i, st, pc, Opaque("rev", (a[0],)))


def it_enumerate(i, fr, st, pc, a, t, fn, r):
    return _ret(i, st, pc, Opaque("enumerate", (a[0], usize(0))))


def it_zip(i, fr, st, pc, a, t, fn, r):
    return _ret(i, st, pc, Opaque("zip", (a[0], a[1])))


def slice_swap(i, fr, st, pc, a, t, fn, r):
    p, x, y = a
    n = i.slice_len(st, p)
    if x.val is None or y.val is None:
        raise Undecided("symbolic swap index")
    if x.val >= n or y.val >= n:
        return i.panic(st, pc, "slice::swap index out of bounds", fr, t)
    px, py = i.elem_ptr(p, x.val), i.elem_ptr(p, y.val)
    vx, vy = i.read_ptr(st, px), i.read_ptr(st, py)
    i.write_ptr(st, px, vy)
    i.write_ptr(st, py, vx)
    return _ret(i, st, pc, UNIT)


def slice_get(i, fr, st, pc, a, t, fn, r):
    p, idx = a
    if not isinstance(idx, W):
        raise Undecided("slice::get with a non-integer index")
    if idx.val is None:
        raise Undecided("symbolic slice::get index")
    n = i.slice_len(st, p)
    if idx.val >= n:
        return _ret(i, st, pc, NONE)
    return _ret(i, st, pc, some(i.elem_ptr(p, idx.val)))


def clone_from_slice(i, fr, st, pc, a, t, fn, r):
    dst, src = a
    nd, ns = i.slice_len(st, dst), i.slice_len(st, src)
    if nd != ns:
        return i.panic(st, pc, "clone_from_slice: length mismatch", fr, t)
    i.write_slice(st, dst, i.slice_elems(st, src))
    return _ret(i, st, pc, UNIT)


def op_assign(op):
    def f(i, fr, st, pc, a, t, fn, r):
        dst, src = a
        rhs = i.read_ptr(st, src) if isinstance(src, Ptr) else src
        i.write_ptr(st, dst, w_bitwise(op, i.read_ptr(st, dst), rhs))
        return _ret(i, st, pc, UNIT)
    return f


def ref_binop(op, lref, rref):
    def f(i, fr, st, pc, a, t, fn, r):
        x = i.read_ptr(st, a[0]) if lref else a[0]
        y = i.read_ptr(st, a[1]) if rref else a[1]
        return _ret(i, st, pc, i.binop(op, x, y, fr))
    return f


def wrapping_add(i, fr, st, pc, a, t, fn, r):
    from .absint import w_add
    return _ret(i, st, pc, w_add(a[0], a[1])[0])


def wrapping_sub(i, fr, st, pc, a, t, fn, r):
    from .absint import w_sub
    return _ret(i, st, pc, w_sub(a[0], a[1])[0])


def _sym_select(i, x, y, pick_y_when_x_lt_y):
    c = i.sym_compare("Lt", x, y)
    cb = c.bits[0] if c.val is None else (ONE if c.val else ZERO)
    if cb is None:
        raise Undecided("symbolic min/max beyond the support bound")
    if pick_y_when_x_lt_y:
        return W(x.width, bits=[B.bite(cb, yy, xx) for xx, yy in zip(x.all_bits(), y.all_bits())], signed=x.signed)
    return W(x.width, bits=[B.bite(cb, xx, yy) for xx, yy in zip(x.all_bits(), y.all_bits())], signed=x.signed)


def cmp_min(i, fr, st, pc, a, t, fn, r):
    x, y = a
    if x.val is None or y.val is None:
        return _ret(i, st, pc, _sym_select(i, x, y, False))
    return _ret(i, st, pc, x if x.val <= y.val else y)


def cmp_max(i, fr, st, pc, a, t, fn, r):
    x, y = a
    if x.val is None or y.val is None:
        return _ret(i, st, pc, _sym_select(i, x, y, True))
    return _ret(i, st, pc, y if y.val >= x.val else x)


def count_ones(i, fr, st, pc, a, t, fn, r):
    x = a[0]
    if x.val is not None:
        return _ret(i, st, pc, wconst(32, bin(x.val).count("1")))
    # population count as an adder tree on bit functions (exact within the support bound)
    from .absint import w_add
    acc = wconst(32, 0)
    for b in x.bits:
        acc, _ = w_add(acc, W(32, bits=[b] + [ZERO] * 31))
    return _ret(i, st, pc, acc)


def _zeros_count(x, leading):
    """leading / trailing zero count of a symbolic word as a priority encoder over its bits (exact bit functions;
    outside window mode the support bound soon gives TOP)"""
    bits = x.all_bits()
    order = list(reversed(range(x.width))) if leading else list(range(x.width))
    out = [ZERO] * 32
    none_before = ONE
    for rank, p in enumerate(order):
        here = B.band(none_before, bits[p])      # first set bit is at p: the count is `rank`
        for k in range(32):
            if (rank >> k) & 1:
                out[k] = B.bor(out[k], here)
        none_before = B.band(none_before, B.bnot(bits[p]))
    for k in range(32):                            # all zero: the count is the width
        if (x.width >> k) & 1:
            out[k] = B.bor(out[k], none_before)
    return W(32, bits=out)


def trailing_zeros(i, fr, st, pc, a, t, fn, r):
    x = a[0]
    if x.val is None:
        return _ret(i, st, pc, _zeros_count(x, False))
    n = x.width if x.val == 0 else (x.val & -x.val).bit_length() - 1
    return _ret(i, st, pc, wconst(32, n))


def vec_from_elem(i, fr, st, pc, a, t, fn, r):
    v, n = a
    if n.val is None:
        raise Undecided("symbolic vec length")
    if n.val > (1 << 20):
        raise Undecided("vec too large")
    cell = new_cell()
    st.mem[cell] = Arr([v] * n.val)
    return _ret(i, st, pc, Ptr(cell, (), (0, n.val), "vec"))


def vec_new(i, fr, st, pc, a, t, fn, r):
    cell = new_cell()
    st.mem[cell] = Arr([])
    return _ret(i, st, pc, Ptr(cell, (), (0, 0), "vec"))


def _vec_set(i, st, vp, elems):
    """vp: pointer to the place holding the Vec handle"""
    h = i.read_ptr(st, vp)
    st.mem[h.cell] = Arr(elems)
    i.write_ptr(st, vp, Ptr(h.cell, (), (0, len(elems)), "vec"))


def vec_push(i, fr, st, pc, a, t, fn, r):
    h = i.read_ptr(st, a[0])
    if not isinstance(h, Ptr):
        raise Undecided("push on %r" % (h,))
    _vec_set(i, st, a[0], list(i.slice_elems(st, h)) + [a[1]])
    return _ret(i, st, pc, UNIT)


def vec_extend(i, fr, st, pc, a, t, fn, r):
    h = i.read_ptr(st, a[0])
    if not isinstance(h, Ptr):
        raise Undecided("extend on %r" % (h,))
    items = []
    it = a[1]
    if isinstance(it, Ptr):
        src = i.read_ptr(st, it) if it.sl is None else it
        if isinstance(src, Ptr):
            items = list(i.slice_elems(st, src))
        else:
            raise Undecided("extend from %r" % (src,))
    else:
        while True:
            it, x = iter_next(i, st, it)
            if x is None:
                break
            items.append(load_items(i, st, x))
    _vec_set(i, st, a[0], list(i.slice_elems(st, h)) + items)
    return _ret(i, st, pc, UNIT)


def vec_len(i, fr, st, pc, a, t, fn, r):
    h = i.read_ptr(st, a[0])
    return _ret(i, st, pc, usize(i.slice_len(st, h)))


def vec_is_empty(i, fr, st, pc, a, t, fn, r):
    h = i.read_ptr(st, a[0]) if a[0].sl is None else a[0]
    return _ret(i, st, pc, wbool(i.slice_len(st, h) == 0))


def box_new_uninit(i, fr, st, pc, a, t, fn, r):
    cell = new_cell()
    st.mem[cell] = Opaque("uninit", ())
    return _ret(i, st, pc, Ptr(cell, (), None, "box"))


def box_assume_init_into_vec(i, fr, st, pc, a, t, fn, r):
    b = a[0]
    arr = i.read_ptr(st, b)
    if not isinstance(arr, Arr):
        raise Undecided("vec![..] contents %r" % (arr,))
    return _ret(i, st, pc, Ptr(b.cell, b.path, (0, len(arr.elems)), "vec"))


def vec_insert(i, fr, st, pc, a, t, fn, r):
    h = i.read_ptr(st, a[0])
    elems = list(i.slice_elems(st, h))
    k = a[1]
    if k.val is None:
        raise Undecided("symbolic insert position")
    if k.val > len(elems):
        return i.panic(st, pc, "insertion index out of bounds", fr, t)
    elems.insert(k.val, a[2])
    _vec_set(i, st, a[0], elems)
    return _ret(i, st, pc, UNIT)


def vec_index(i, fr, st, pc, a, t, fn, r):
    h = i.read_ptr(st, a[0]) if a[0].sl is None else a[0]
    idx = a[1]
    if isinstance(idx, Agg):
        return index_mut_range(i, fr, st, pc, [Ptr(h.cell, h.path, h.sl), idx], t, fn, r)
    if idx.val is None:
        raise Undecided("symbolic Vec index")
    n = i.slice_len(st, h)
    if idx.val >= n:
        return i.panic(st, pc, "index out of bounds", fr, t)
    return _ret(i, st, pc, i.elem_ptr(h, idx.val))


def slice_last(i, fr, st, pc, a, t, fn, r):
    p = a[0]
    n = i.slice_len(st, p)
    if n == 0:
        return _ret(i, st, pc, NONE)
    return _ret(i, st, pc, some(i.elem_ptr(p, n - 1)))


def option_unwrap(i, fr, st, pc, a, t, fn, r):
    v = a[0]
    if not isinstance(v, Agg):
        raise Undecided("unwrap of %r" % (v,))
    if v.variant == 0:
        return i.panic(st, pc, "called `Option::unwrap()` on a `None` value", fr, t)
    return _ret(i, st, pc, v.fields[0])


def ref_eq(i, fr, st, pc, a, t, fn, r):
    x, y = a
    for _ in range(3):
        if isinstance(x, Ptr) and x.sl is None:
            x = i.read_ptr(st, x)
        if isinstance(y, Ptr) and y.sl is None:
            y = i.read_ptr(st, y)
    neg = fn["name"] == "ne"
    if isinstance(x, W) and isinstance(y, W):
        e = w_eq(x, y)
        return _ret(i, st, pc, b_not(e) if neg else e)
    if isinstance(x, Agg) and isinstance(y, Agg) and x.key == y.key:
        cands = [b for b, sty, tr in i.facts.trait_impl_methods("std::cmp::PartialEq") if sty.get("path") == x.key and b["name"] == "eq"]
        if cands:
            c1, c2 = new_cell(), new_cell()
            st.mem[c1], st.mem[c2] = x, y
            if cands[0]["key"] in i.opaque_fns:
                outs = i.opaque_fns[cands[0]["key"]](i, fr, [Ptr(c1, ()), Ptr(c2, ())], st, pc, t)
            else:
                outs = i.call_mir(cands[0], cands[0]["mir"], [Ptr(c1, ()), Ptr(c2, ())], st, dict(fr.env), fr.depth + 1, pc)
            if not neg:
                return outs
            return [Outcome("return", o.state, o.pc, b_not(o.value)) if o.kind == "return" else o for o in outs]
    raise Undecided("equality of %r and %r" % (x, y))


def vec_into_boxed_slice(i, fr, st, pc, a, t, fn, r):
    v = a[0]
    return _ret(i, st, pc, Ptr(v.cell, v.path, v.sl, "box"))


def box_clone(i, fr, st, pc, a, t, fn, r):
    b = i.read_ptr(st, a[0])
    if not isinstance(b, Ptr):
        raise Undecided("clone of %r" % (b,))
    cell = new_cell()
    elems = i.slice_elems(st, b)
    st.mem[cell] = Arr(elems)
    return _ret(i, st, pc, Ptr(cell, (), (0, len(elems)), b.kind))


def clone_copy(i, fr, st, pc, a, t, fn, r):
    return _ret(i, st, pc, i.read_ptr(st, a[0]))


def slices_eq(i, st, pa, pb):
    ea, eb = i.slice_elems(st, pa), i.slice_elems(st, pb)
    if len(ea) != len(eb):
        return wbool(False)
    acc = wbool(True)
    for x, y in zip(ea, eb):
        acc = b_and(acc, w_eq(x, y))
    return acc


def box_eq(i, fr, st, pc, a, t, fn, r):
    x, y = i.read_ptr(st, a[0]), i.read_ptr(st, a[1])
    return _ret(i, st, pc, slices_eq(i, st, x, y))


def array_eq(i, fr, st, pc, a, t, fn, r):
    return _ret(i, st, pc, slices_eq(i, st, a[0], a[1]))


def ord_cmp_int(i, fr, st, pc, a, t, fn, r):
    x, y = i.read_ptr(st, a[0]), i.read_ptr(st, a[1])
    if isinstance(x, W) and isinstance(y, W) and (x.val is None or y.val is None) and not x.signed:
        if getattr(i, "cmp_split", False):
            # small-window mode: the three orders as three paths with exact conditions
            lt, eq = i.binop("Lt", x, y, fr), w_eq(x, y)
            outs = []
            for cond, res in (((lt,), -1), ((b_not(lt), eq), 0), ((b_not(lt), b_not(eq)), 1)):
                if any(isinstance(c, W) and c.val == 0 for c in cond):
                    continue
                pc2 = pc + tuple(c for c in cond if not (isinstance(c, W) and c.val == 1))
                if _feasible(i, pc2):
                    outs.append(Outcome("return", st.fork(), pc2, ordering(res)))
            return outs
        # unsigned comparison of symbolic words: the summary "order of these two one-word sequences"
        return _ret(i, st, pc, Opaque("lexcmp", ((x,), (y,))))
    return _ret(i, st, pc, i.binop("Cmp", x, y, fr))


def ordering_eq(i, fr, st, pc, a, t, fn, r):
    x = i.read_ptr(st, a[0]) if isinstance(a[0], Ptr) else a[0]
    y = i.read_ptr(st, a[1]) if isinstance(a[1], Ptr) else a[1]
    neg = fn["name"] == "ne"
    if isinstance(x, Agg) and isinstance(y, Agg):
        return _ret(i, st, pc, wbool((x.variant == y.variant) != neg))
    lex, conc = (x, y) if isinstance(x, Opaque) else (y, x)
    if isinstance(lex, Opaque) and lex.kind == "lexcmp" and isinstance(conc, Agg):
        pol = getattr(i, "cmp_policy", None)
        if pol is not None and conc.variant == 0 and not neg:
            k = len(i.cmp_log)
            i.cmp_log.append(lex.data)
            return _ret(i, st, pc, wbool(pol(k)))
        return _ret(i, st, pc, wtop(1))
    raise Undecided("Ordering comparison of %r and %r" % (x, y))


def is_lt(i, fr, st, pc, a, t, fn, r):
    v = a[0]
    if isinstance(v, Agg):
        return _ret(i, st, pc, wbool(v.variant == 0))
    if isinstance(v, Opaque) and v.kind == "lexcmp":
        pol = getattr(i, "cmp_policy", None)
        if pol is not None:
            k = len(i.cmp_log)
            i.cmp_log.append(v.data)
            return _ret(i, st, pc, wbool(pol(k)))
        return _ret(i, st, pc, wtop(1))
    raise Undecided("is_lt on %r" % (v,))


def iterator_cmp(i, fr, st, pc, a, t, fn, r):
    """lexicographic comparison of two iterators over integer references.  Concrete data gives a
    concrete Ordering; symbolic data gives the summary Opaque('lexcmp', (left seq, right seq)):
    "lexicographic order of these two word sequences, words compared as unsigned integers"."""
    ia, ib = a

    def drain(it, st, pc):
        # adaptors with closures (map) go through iter_next_multi; a closure that splits the path is not summarised
        out = []
        while True:
            try:
                it, x = iter_next(i, st, it)
            except Undecided:
                subs, oth = iter_next_multi(i, fr, st, pc, it)
                if len(subs) != 1 or oth:
                    raise Undecided("Iterator::cmp over an adaptor whose closure splits the path")
                st, pc, it, x = subs[0]
            if x is None:
                return out, st, pc
            out.append(load_items(i, st, x))
    la, st, pc = drain(ia, st, pc)
    lb, st, pc = drain(ib, st, pc)
    if all(isinstance(v, W) and v.val is not None for v in la + lb):
        ka, kb = [v.val for v in la], [v.val for v in lb]
        return _ret(i, st, pc, ordering((ka > kb) - (ka < kb)))
    if getattr(i, "cmp_split", False) and all(isinstance(v, W) for v in la + lb):
        return _lex_split(i, fr, st, pc, la, lb, t)
    return _ret(i, st, pc, Opaque("lexcmp", (tuple(la), tuple(lb))))


def option_eq(i, fr, st, pc, a, t, fn, r):
    """<Option<T> as PartialEq>::eq / ne (derived in std): same variant and, for Some, equal payloads; the payload
    comparison is the local PartialEq impl of T (through references)"""
    neg = fn["name"] == "ne"
    x = i.read_ptr(st, a[0]) if isinstance(a[0], Ptr) else a[0]
    y = i.read_ptr(st, a[1]) if isinstance(a[1], Ptr) else a[1]
    if not (isinstance(x, Agg) and isinstance(y, Agg) and x.key == OPTION and y.key == OPTION):
        raise Undecided("Option comparison of %r and %r" % (x, y))
    if x.variant != y.variant:
        return _ret(i, st, pc, wbool(neg))
    if x.variant == 0:
        return _ret(i, st, pc, wbool(not neg))
    inner = ((r or fn)["args"][0].get("args") or [None])[0]
    px, py = x.fields[0], y.fields[0]
    while isinstance(inner, dict) and inner.get("k") == "ref":
        inner = inner["t"]
        if isinstance(inner, dict) and inner.get("k") == "ref":
            px, py = i.read_ptr(st, px), i.read_ptr(st, py)
    if not isinstance(inner, dict):
        raise Undecided("Option comparison: payload type unknown")
    if inner.get("k") in ("uint", "int", "bool", "char") and not isinstance(px, Ptr):
        e = w_eq(px, py)
        return _ret(i, st, pc, b_not(e) if neg else e)
    if inner.get("k") in ("uint", "int", "bool", "char"):
        e = w_eq(i.read_ptr(st, px), i.read_ptr(st, py))
        return _ret(i, st, pc, b_not(e) if neg else e)
    cands = [b for b, sty, tr in i.facts.trait_impl_methods("std::cmp::PartialEq") if sty.get("path") == inner.get("path") and b["name"] == "eq"]
    if not cands or not (isinstance(px, Ptr) and isinstance(py, Ptr)):
        raise Undecided("Option comparison with payload %s" % inner.get("s"))
    if cands[0]["key"] in i.opaque_fns:
        outs = i.opaque_fns[cands[0]["key"]](i, fr, [px, py], st, pc, t)
    else:
        outs = i.call_mir(cands[0], cands[0]["mir"], [px, py], st, dict(fr.env), fr.depth + 1, pc)
    return [Outcome("return", o.state, o.pc, b_not(o.value) if neg else o.value) if o.kind == "return" else o for o in outs]


def partial_ne(i, fr, st, pc, a, t, fn, r):
    """provided method PartialEq::ne = !eq, with eq resolved to the local impl of the Self type"""
    selfty = (r or fn)["args"][0]
    path = selfty.get("path")
    if path == OPTION:
        return option_eq(i, fr, st, pc, a, t, dict(fn, name="ne"), r)
    cands = [b for b, sty, tr in i.facts.trait_impl_methods("std::cmp::PartialEq") if sty.get("path") == path and b["name"] == "eq"]
    if not cands:
        raise Undecided("PartialEq::ne on %s" % selfty.get("s"))
    if cands[0]["key"] in i.opaque_fns:
        outs = i.opaque_fns[cands[0]["key"]](i, fr, a, st, pc, t)
    else:
        outs = i.call_mir(cands[0], cands[0]["mir"], a, st, dict(fr.env), fr.depth + 1, pc)
    res = []
    for o in outs:
        if o.kind == "return":
            res.append(Outcome("return", o.state, o.pc, b_not(o.value)))
        else:
            res.append(o)
    return res


def thread_rng(i, fr, st, pc, a, t, fn, r):
    i.rng_sources = getattr(i, "rng_sources", 0) + 1
    return _ret(i, st, pc, Opaque("thread_rng", ()))


def next_u64(i, fr, st, pc, a, t, fn, r):
    k = i.rng_calls
    i.rng_calls += 1
    src = i.read_ptr(st, a[0]) if isinstance(a[0], Ptr) else a[0]
    if not (isinstance(src, Opaque) and src.kind == "thread_rng"):
        raise Undecided("next_u64 on %r" % (src,))
    return _ret(i, st, pc, W(64, bits=[B.atom("rng%d[%d]" % (k, b)) for b in range(64)]))


def index_mut_range(i, fr, st, pc, a, t, fn, r):
    p, rg = a
    if isinstance(p, Ptr) and p.sl is None:
        tgt = i.read_ptr(st, p)
        if isinstance(tgt, Ptr):
            p = tgt
    n = i.slice_len(st, p)
    if isinstance(rg, W):
        if rg.val is None:
            raise Undecided("symbolic index")
        if rg.val >= n:
            return i.panic(st, pc, "index out of bounds", fr, t)
        return _ret(i, st, pc, i.elem_ptr(p, rg.val))
    if not isinstance(rg, Agg):
        raise Undecided("index with %r" % (rg,))
    k = rg.key or ""
    if k == RANGE:
        s, e = rg.fields
    elif k.endswith("RangeTo"):
        s, e = usize(0), rg.fields[0]
    elif k.endswith("RangeFrom"):
        s, e = rg.fields[0], usize(n)
    elif k.endswith("RangeFull"):
        s, e = usize(0), usize(n)
    elif k.endswith("RangeToInclusive"):
        s, e = usize(0), (usize(rg.fields[0].val + 1) if rg.fields[0].val is not None else rg.fields[0])
    else:
        raise Undecided("index with %r" % (rg,))
    if s.val is None or e.val is None:
        raise Undecided("symbolic range index")
    if s.val > e.val or e.val > n:
        return i.panic(st, pc, "range index out of bounds", fr, t)
    start = p.sl[0] if p.sl else 0
    return _ret(i, st, pc, Ptr(p.cell, p.path, (start + s.val, e.val - s.val), "ref"))


def panic_fn(i, fr, st, pc, a, t, fn, r):
    msg = ""
    if a and isinstance(a[0], Opaque) and a[0].kind == "str":
        msg = a[0].data[0]
    info = dict(kind="explicit", msg=msg, fn=fr.fn_path, span=t["span"], profile_dependent=False, definite=True)
    return [Outcome("panic", st, pc, None, info)]


def assert_failed(i, fr, st, pc, a, t, fn, r):
    info = dict(kind="explicit", msg="assert_eq/ne failed", fn=fr.fn_path, span=t["span"], profile_dependent=False, definite=True)
    return [Outcome("panic", st, pc, None, info)]


# ---------------------------------------------------------------------------------- strings
# a &str is Opaque('str', (text_or_None, len W))
def str_is_ascii(i, fr, st, pc, a, t, fn, r):
    s = a[0]
    if s.data[0] is not None:
        return _ret(i, st, pc, wbool(all(ord(c) < 128 for c in s.data[0])))
    return _ret(i, st, pc, W(1, bits=[B.atom("str.is_ascii")]))


def str_len(i, fr, st, pc, a, t, fn, r):
    s = a[0]
    if s.data[0] is not None:
        return _ret(i, st, pc, usize(len(s.data[0].encode())))
    return _ret(i, st, pc, s.data[1])


def _ascii_guarded(pc):
    a = B.atom("str.is_ascii")
    for c in pc:
        if isinstance(c, W) and c.val is None and c.bits[0] == a:
            return True
    return False


def str_index_range(i, fr, st, pc, a, t, fn, r):
    s, rg = a
    st_, en = rg.fields
    if st_.val is None or en.val is None:
        raise Undecided("symbolic str range")
    ln = s.data[1] if len(s.data) > 1 else None
    if s.data[0] is not None:
        return _ret(i, st, pc, Opaque("str", (s.data[0][st_.val:en.val], usize(en.val - st_.val))))
    if ln is None or ln.val is None:
        raise Undecided("slice of a string of unknown length")
    if en.val > ln.val or st_.val > en.val:
        return i.panic(st, pc, "str index out of range", fr, t)
    base = s.data[2][1] if len(s.data) > 2 else 0
    sub = Opaque("str", (None, usize(en.val - st_.val), ("sub", base + st_.val, base + en.val)))
    outs = [Outcome("return", st, pc, sub)]
    if not _ascii_guarded(pc) and (st_.val > 0 or en.val < ln.val):
        # a multi-byte character may straddle the boundary
        info = dict(kind="std", msg="byte index is not a char boundary (string not known to be ASCII)", fn=fr.fn_path, span=t["span"], profile_dependent=False, definite=False)
        outs.append(Outcome("panic", st.fork(), pc, None, info))
    return outs


def from_str_radix(i, fr, st, pc, a, t, fn, r):
    """u64::from_str_radix(s, radix): Err, or Ok(v) with v < radix^len (std also accepts a leading '+',
    so the digits can be fewer than len).  Modelled as: fresh discriminant, fresh low bits."""
    s, radix = a
    if s.data[0] is not None:
        raise Undecided("concrete from_str_radix")
    ln = s.data[1]
    if ln.val is None or radix.val != 16:
        raise Undecided("from_str_radix shape")
    k = getattr(i, "parse_calls", 0)
    i.parse_calls = k + 1
    if len(s.data) > 2:
        k = "@%d" % s.data[2][1]
    nb = min(64, 4 * ln.val)
    bits = [B.atom("parse%s[%d]" % (k, b)) for b in range(nb)] + [ZERO] * (64 - nb)
    ok = W(1, bits=[B.atom("parse%s.ok" % k)])
    st2 = st.fork()
    return [
        Outcome("return", st, pc + (ok,), Agg("adt", RESULT, 0, (W(64, bits=bits),))),
        Outcome("return", st2, pc + (b_not(ok),), Agg("adt", RESULT, 1, (TopV("ParseIntError"),))),
    ]


def str_bytes(i, fr, st, pc, a, t, fn, r):
    return _ret(i, st, pc, Opaque("str_iter", (a[0],)))


def str_iter_pred(i, fr, st, pc, a, t, fn, r):
    """all/any over the bytes/chars of a symbolic string with some closure: an unknown Boolean of
    the text (fresh atom per call)"""
    k = getattr(i, "strpred_calls", 0)
    i.strpred_calls = k + 1
    tag = "unknown"
    src = a[0]
    pos = ""
    if isinstance(src, Ptr):
        src = i.read_ptr(st, src)
    sv = None
    if isinstance(src, Opaque) and src.kind == "str_iter":
        sv = src.data[0]
        if isinstance(sv, Ptr):
            sv = i.read_ptr(st, sv)
    elif isinstance(src, Opaque) and src.kind == "str":
        sv = src
    if isinstance(sv, Opaque) and sv.kind == "str":
        start = sv.data[2][1] if len(sv.data) > 2 else 0
        ln = sv.data[1].val if len(sv.data) > 1 and isinstance(sv.data[1], W) and sv.data[1].val is not None else None
        pos = "@%d+%s" % (start, ln if ln is not None else "?")
    clos = a[1] if len(a) > 1 else None
    if isinstance(clos, Agg) and clos.kind == "closure":
        body = i.facts.body(clos.key)
        if body is not None:
            calls = [blk["term"]["func"].get("path", "") for blk in body["mir"]["blocks"] if blk["term"]["k"] == "call" and "indirect" not in blk["term"]["func"]]
            if len(calls) == 1 and ("is_ascii_hexdigit" in calls[0] or calls[0].endswith("::is_digit") or calls[0].endswith("::to_digit")):
                tag = "hexdigit-%s" % fn["name"]
    if fn["name"] in ("starts_with", "strip_prefix"):
        tag = "prefix"
    if fn["name"] in ("ends_with", "strip_suffix"):
        tag = "suffix"
    return _ret(i, st, pc, W(1, bits=[B.atom("strpred%s:%s#%d" % (pos or "@?+?", tag, k))]))


def call_closure(i, fr, st, pc, clos, args):
    """call a closure value with already-evaluated arguments -> outcomes"""
    if isinstance(clos, Opaque) and clos.kind == "fndef":
        # a function item used as a closure (e.g. `.map(Cube::nth_var)`)
        key = clos.data[0]
        if key in i.opaque_fns:
            return i.opaque_fns[key](i, fr, list(args), st, pc, {"span": None, "snippet": None})
        body = i.facts.body(key)
        if body is None:
            # a std function used as a value (`.all(u8::is_ascii_hexdigit)`): its library summary
            path = clos.data[1] if len(clos.data) > 1 else None
            fn_ = dict(path=path, key=key, name=(path or "").split("::")[-1], args=list(clos.data[2]) if len(clos.data) > 2 else [])
            if path:
                try:
                    return call(i, fr, st, pc, path, fn_, None, list(args), {"span": None, "snippet": None})
                except Undecided as e:
                    if not str(e.cause).startswith("unmodelled:"):
                        raise
            raise Undecided("call of non-local function item %s" % (path or key))
        return i.call_mir(body, body["mir"], list(args), st, dict(fr.env), fr.depth + 1, pc)
    if not (isinstance(clos, Agg) and clos.kind == "closure"):
        raise Undecided("call of non-closure %r" % (clos,))
    body = i.facts.body(clos.key)
    if body is None:
        raise Undecided("closure body %s" % clos.key)
    cell = new_cell()
    st.mem[cell] = clos
    first_ty = body["mir"]["locals"][1]["ty"]
    self_arg = Ptr(cell, ()) if first_ty["k"] == "ref" else clos
    return i.call_mir(body, body["mir"], [self_arg] + list(args), st, dict(fr.env), fr.depth + 1, pc)


def slice_iter_all(i, fr, st, pc, a, t, fn, r):
    """Iterator::all / any over a slice iterator with a closure: conjunction / disjunction of the
    closure results over every element (closures are pure here)"""
    if getattr(i, "cmp_split", False):
        return generic_all_any(i, fr, st, pc, a, t, fn, r)
    is_any = fn["name"] == "any"
    itp, clos = a
    it = i.read_ptr(st, itp) if isinstance(itp, Ptr) else itp
    work = [(st, pc, wbool(not is_any), it)]
    done = []
    while work:
        s, p, acc, cur = work.pop()
        cur2, item = iter_next(i, s, cur)
        if item is None:
            done.append(Outcome("return", s, p, acc))
            continue
        for o in call_closure(i, fr, s, p, clos, [item]):
            if o.kind != "return":
                done.append(o)
                continue
            v = o.value
            acc2 = b_and(acc, v) if not is_any else b_not(b_and(b_not(acc), b_not(v)))
            work.append((o.state, o.pc, acc2, cur2))
        if len(work) + len(done) > i.max_paths:
            raise Undecided("path budget in all/any")
    return done


def vec_retain(i, fr, st, pc, a, t, fn, r):
    vp, clos = a
    h = i.read_ptr(st, vp)
    elems = list(i.slice_elems(st, h))
    work = [(st, pc, [], 0)]
    done = []
    while work:
        s, p, kept, k = work.pop()
        if k == len(elems):
            _vec_set(i, s, vp, kept)
            done.append(Outcome("return", s, p, UNIT))
            continue
        cell = new_cell()
        s.mem[cell] = elems[k]
        for o in call_closure(i, fr, s, p, clos, [Ptr(cell, ())]):
            if o.kind != "return":
                done.append(o)
                continue
            v = o.value
            if isinstance(v, W) and v.val is not None:
                work.append((o.state, o.pc, kept + ([elems[k]] if v.val else []), k + 1))
            else:
                s2 = o.state.fork()
                if _feasible(i, o.pc + (v,)):
                    work.append((o.state, o.pc + (v,), kept + [elems[k]], k + 1))
                if _feasible(i, o.pc + (b_not(v),)):
                    work.append((s2, o.pc + (b_not(v),), list(kept), k + 1))
        if len(work) + len(done) > i.max_paths:
            raise Undecided("path budget in retain")
    return done


def _elem_key(i, st, v):
    """identity of a sequence element for sort/dedup: the symbolic element name, a token list, or a
    concrete integer.  Distinct names stand for distinct values (the rules also run lists with repeated names)"""
    from .sopmodel import elem_name
    if isinstance(v, Ptr) and v.sl is None:
        v = i.read_ptr(st, v)
    if isinstance(v, Agg):
        nm = elem_name(v)
        if nm is not None:
            return ("name", nm)
        if all(isinstance(f, W) and f.val is not None for f in v.fields):
            return ("const",) + tuple(f.val for f in v.fields)
        return None
    if isinstance(v, Opaque) and v.kind == "string":
        return ("text", repr(v.data[0]))
    if isinstance(v, W) and v.val is not None:
        return ("int", v.val)
    return None


def _local_trait_fn(i, trait, name, adt_path):
    cands = [b for b, sty, tr in i.facts.trait_impl_methods(trait) if sty.get("path") == adt_path and b["name"] == name]
    return cands[0] if cands else None


def _call_on_refs(i, fr, st, pc, body, vals, t):
    args = []
    for v in vals:
        c = new_cell()
        st.mem[c] = v
        args.append(Ptr(c, ()))
    if body["key"] in i.opaque_fns:
        return i.opaque_fns[body["key"]](i, fr, args, st, pc, t)
    return i.call_mir(body, body["mir"], args, st, dict(fr.env), fr.depth + 1, pc)


def _order_of(v):
    """-1/0/1 of a concrete Ordering value, else None"""
    if isinstance(v, Agg) and v.key == "std::cmp::Ordering":
        return v.variant - 1
    return None


def _compare(i, fr, st, pc, x, y, t):
    """outcomes of comparing two elements (or keys) with their own Ord: list of (state, pc, -1/0/1) + other outcomes"""
    res, other = [], []
    if isinstance(x, W) and isinstance(y, W):
        if x.val is not None and y.val is not None:
            xs, ys = (x.sval(), y.sval()) if x.signed else (x.val, y.val)
            return [(st, pc, (xs > ys) - (xs < ys))], []
        if x.signed:
            # two's complement order = unsigned order after flipping the sign bits
            def bias(v_):
                bs = v_.all_bits()
                return W(v_.width, bits=bs[:-1] + [B.bnot(bs[-1])])
            x, y = bias(x), bias(y)
        lt, eq = i.binop("Lt", x, y, fr), w_eq(x, y)
        for cond, r_ in (((lt,), -1), ((b_not(lt), eq), 0), ((b_not(lt), b_not(eq)), 1)):
            if any(isinstance(c, W) and c.val == 0 for c in cond):
                continue
            pc2 = pc + tuple(c for c in cond if not (isinstance(c, W) and c.val == 1))
            if _feasible(i, pc2):
                res.append((st.fork(), pc2, r_))
        return res, other
    if isinstance(x, Agg) and isinstance(y, Agg) and x.key == y.key:
        body = _local_trait_fn(i, "std::cmp::Ord", "cmp", x.key)
        if body is None:
            raise Undecided("no local Ord::cmp for %s" % x.key)
        for o in _call_on_refs(i, fr, st, pc, body, [x, y], t):
            k = _order_of(o.value) if o.kind == "return" else None
            if o.kind != "return":
                other.append(o)
            elif k is None:
                raise Undecided("element comparison returns %r" % (o.value,))
            else:
                res.append((o.state, o.pc, k))
        return res, other
    raise Undecided("order of %r and %r" % (x, y))


def _feasible(i, pc):
    if not getattr(i, "prune", False):
        return True
    return i.feasible(pc)


def _sort_semantic(i, fr, st, pc, elems, keyf, t):
    """stable insertion sort driven by the elements' own comparison (every total-order-respecting sort gives the
    same result; std's sort is stable).  keyf(state, pc, elem) -> [(state, pc, key)] ; returns (list of
    (state, pc, ordered elems), other outcomes)"""
    done, other = [], []
    # work item: (state, pc, sorted prefix [(key, elem)], next index, insert position being probed, key of the new one)
    work = [(st, pc, [], 0, None, None)]
    while work:
        s, p, pre, k, j, kk = work.pop()
        if len(work) + len(done) > i.max_paths:
            raise Undecided("path budget in sort")
        if k == len(elems):
            done.append((s, p, [e for _, e in pre]))
            continue
        if j is None:
            for s2, p2, key in keyf(s, p, elems[k]):
                work.append((s2, p2, pre, k, len(pre), key))
            continue
        if j == 0:
            work.append((s, p, [(kk, elems[k])] + pre, k + 1, None, None))
            continue
        res, oth = _compare(i, fr, s, p, kk, pre[j - 1][0], t)
        other += oth
        for s2, p2, c in res:
            if not _feasible(i, p2):
                continue
            if c < 0:
                work.append((s2, p2, pre, k, j - 1, kk))
            else:
                work.append((s2, p2, pre[:j] + [(kk, elems[k])] + pre[j:], k + 1, None, None))
    return done, other


def _vec_target(i, st, target):
    h, is_vec_place = target, False
    if isinstance(target, Ptr) and target.sl is None:
        inner = i.read_ptr(st, target)
        if isinstance(inner, Ptr):
            h, is_vec_place = inner, True
    return h, is_vec_place


def seq_event(name):
    def f(i, fr, st, pc, a, t, fn, r):
        """sort(): with named (opaque) elements any total order consistent with equality groups equal elements -
        modelled as a stable sort by element identity; with real symbolic elements the elements' own Ord decides
        (path split).  dedup(): removes adjacent equal elements.  Both are also recorded."""
        i.seq_events = getattr(i, "seq_events", []) + [name]
        target = a[0]
        h, is_vec_place = _vec_target(i, st, target)
        elems = list(i.slice_elems(st, h))
        keys = [_elem_key(i, st, e) for e in elems]
        if getattr(i, "cmp_split", False) and not all(k is not None and k[0] in ("const", "int", "text") for k in keys):
            keys = [None]   # real symbolic elements: their own Ord / PartialEq decide, not their names
        if any(k is None for k in keys):
            return _seq_semantic(i, fr, st, pc, a, t, name, target, h, is_vec_place, elems)
        if name == "sort":
            order = sorted(range(len(elems)), key=lambda j: keys[j])
            new = [elems[j] for j in order]
            i.write_slice(st, h, new)
        else:
            new = [e for j, e in enumerate(elems) if j == 0 or keys[j] != keys[j - 1]]
            if is_vec_place:
                _vec_set(i, st, target, new)
            elif len(new) != len(elems):
                raise Undecided("dedup on a non-owning view")
        return _ret(i, st, pc, UNIT)
    return f


def _seq_semantic(i, fr, st, pc, a, t, name, target, h, is_vec_place, elems):
    if name == "sort":
        done, other = _sort_semantic(i, fr, st, pc, elems, lambda s, p, e: [(s, p, e)], t)
        outs = list(other)
        for s, p, new in done:
            i.write_slice(s, h, new)
            outs.append(Outcome("return", s, p, UNIT))
        return outs
    if not is_vec_place:
        raise Undecided("dedup on a non-owning view")
    eqb = None

    def same(s, p, x, y):
        """[(state, pc, bool)]"""
        if isinstance(x, W) and isinstance(y, W):
            e = w_eq(x, y)
        else:
            body = _local_trait_fn(i, "std::cmp::PartialEq", "eq", x.key) if isinstance(x, Agg) else None
            if body is None:
                raise Undecided("dedup of %r" % (x,))
            res = []
            for o in _call_on_refs(i, fr, s, p, body, [x, y], t):
                if o.kind != "return":
                    raise Undecided("element equality does not return")
                res += _split_bool(i, o.state, o.pc, o.value)
            return res
        return _split_bool(i, s, p, e)
    return _dedup_with(i, st, pc, target, elems, same)


def _split_bool(i, s, p, v):
    if isinstance(v, W) and v.val is not None:
        return [(s, p, bool(v.val))]
    out = []
    for cond, val in ((v, True), (b_not(v), False)):
        p2 = p + (cond,)
        if _feasible(i, p2):
            out.append((s.fork(), p2, val))
    return out


def _dedup_with(i, st, pc, target, elems, same):
    """Vec::dedup_by semantics: walk left to right, drop an element when same(elem, last kept) holds"""
    work = [(st, pc, [], 0)]
    outs = []
    while work:
        s, p, kept, k = work.pop()
        if len(work) + len(outs) > i.max_paths:
            raise Undecided("path budget in dedup")
        if k == len(elems):
            _vec_set(i, s, target, kept)
            outs.append(Outcome("return", s, p, UNIT))
            continue
        if not kept:
            work.append((s, p, [elems[k]], k + 1))
            continue
        for s2, p2, eq in same(s, p, elems[k], kept[-1]):
            work.append((s2, p2, list(kept) if eq else kept + [elems[k]], k + 1))
    return outs


def vec_dedup_by(i, fr, st, pc, a, t, fn, r):
    """dedup_by(|a, b| same): a = the later element, b = the last kept one; removes a when the closure holds"""
    i.seq_events = getattr(i, "seq_events", []) + ["dedup_by"]
    target, clos = a
    h, is_vec_place = _vec_target(i, st, target)
    if not is_vec_place:
        raise Undecided("dedup_by on a non-owning view")
    elems = list(i.slice_elems(st, h))

    def same(s, p, x, y):
        cx, cy = new_cell(), new_cell()
        s.mem[cx], s.mem[cy] = x, y
        res = []
        for o in call_closure(i, fr, s, p, clos, [Ptr(cx, ()), Ptr(cy, ())]):
            if o.kind != "return":
                raise Undecided("dedup_by closure does not return")
            res += _split_bool(i, o.state, o.pc, o.value)
        return res
    return _dedup_with(i, st, pc, target, elems, same)


def vec_dedup_by_key(i, fr, st, pc, a, t, fn, r):
    i.seq_events = getattr(i, "seq_events", []) + ["dedup_by_key"]
    target, clos = a
    h, is_vec_place = _vec_target(i, st, target)
    if not is_vec_place:
        raise Undecided("dedup_by_key on a non-owning view")
    elems = list(i.slice_elems(st, h))

    def key(s, p, x):
        cx = new_cell()
        s.mem[cx] = x
        return [(o.state, o.pc, o.value) for o in call_closure(i, fr, s, p, clos, [Ptr(cx, ())]) if o.kind == "return"]

    def same(s, p, x, y):
        res = []
        for s1, p1, kx in key(s, p, x):
            for s2, p2, ky in key(s1, p1, y):
                if not (isinstance(kx, W) and isinstance(ky, W)):
                    raise Undecided("dedup_by_key with a non-integer key")
                res += _split_bool(i, s2, p2, w_eq(kx, ky))
        return res
    return _dedup_with(i, st, pc, target, elems, same)


def slice_sort_by_key(i, fr, st, pc, a, t, fn, r):
    """sort_by_key / sort_by_cached_key / sort_unstable_by_key: stable order of the keys (an unstable sort may
    order equal-key elements differently: then only decided when no two keys can be equal -> Undecided otherwise)"""
    i.seq_events = getattr(i, "seq_events", []) + ["sort_by_key"]
    target, clos = a
    h, _ = _vec_target(i, st, target)
    elems = list(i.slice_elems(st, h))
    if "unstable" in fn["name"] and len(elems) > 1:
        raise Undecided("unstable sort by key")

    def keyf(s, p, e):
        c = new_cell()
        s.mem[c] = e
        res = []
        for o in call_closure(i, fr, s, p, clos, [Ptr(c, ())]):
            if o.kind != "return":
                raise Undecided("key closure does not return")
            res.append((o.state, o.pc, o.value))
        return res
    done, other = _sort_semantic(i, fr, st, pc, elems, keyf, t)
    outs = list(other)
    for s, p, new in done:
        i.write_slice(s, h, new)
        outs.append(Outcome("return", s, p, UNIT))
    return outs


def slice_first(i, fr, st, pc, a, t, fn, r):
    p = a[0]
    if i.slice_len(st, p) == 0:
        return _ret(i, st, pc, NONE)
    return _ret(i, st, pc, some(i.elem_ptr(p, 0)))


def vec_clone(i, fr, st, pc, a, t, fn, r):
    return box_clone(i, fr, st, pc, a, t, fn, r)


def try_branch(i, fr, st, pc, a, t, fn, r):
    # <Result<T,E> as Try>::branch : Ok(v) -> Continue(v) ; Err(e) -> Break(Err(e))
    v = a[0]
    if not isinstance(v, Agg):
        raise Undecided("Try::branch on %r" % (v,))
    CF = "std::ops::ControlFlow"
    if v.variant == 0:
        return _ret(i, st, pc, Agg("adt", CF, 0, (v.fields[0],)))
    return _ret(i, st, pc, Agg("adt", CF, 1, (Agg("adt", RESULT, 1, (v.fields[0],)),)))


def from_residual(i, fr, st, pc, a, t, fn, r):
    v = a[0]
    return _ret(i, st, pc, Agg("adt", RESULT, 1, (v.fields[0],)))


TABLE = {
    "<std::boxed::Box<T, A> as std::convert::AsMut<T>>::as_mut": box_as_slice,
    "<std::boxed::Box<T, A> as std::convert::AsRef<T>>::as_ref": box_as_slice,
    "std::array::<impl std::convert::AsMut<[T]> for [T; N]>::as_mut": array_as_slice,
    "std::array::<impl std::convert::AsRef<[T]> for [T; N]>::as_ref": array_as_slice,
    "<std::vec::Vec<T, A> as std::convert::AsMut<[T]>>::as_mut": box_as_slice,
    "<std::vec::Vec<T, A> as std::ops::Deref>::deref": box_as_slice,
    "<std::vec::Vec<T, A> as std::ops::DerefMut>::deref_mut": box_as_slice,
    "std::vec::Vec::<T, A>::as_slice": box_as_slice,
    "core::slice::<impl [T]>::len": slice_len,
    "core::slice::<impl [T]>::iter": slice_iter,
    "core::slice::<impl [T]>::iter_mut": slice_iter_mut,
    "core::slice::iter::<impl std::iter::IntoIterator for &'a [T]>::into_iter": slice_iter,
    "core::slice::iter::<impl std::iter::IntoIterator for &'a mut [T]>::into_iter": slice_iter_mut,
    "<I as std::iter::IntoIterator>::into_iter": identity,
    "<&'a std::vec::Vec<T, A> as std::iter::IntoIterator>::into_iter": vec_into_iter_ref,
    "<std::slice::Iter<'a, T> as std::iter::Iterator>::next": generic_next,
    "<std::slice::IterMut<'a, T> as std::iter::Iterator>::next": generic_next,
    "<std::iter::Enumerate<I> as std::iter::Iterator>::next": generic_next,
    "<std::iter::Filter<I, P> as std::iter::Iterator>::next": generic_next,
    "<std::iter::Rev<I> as std::iter::Iterator>::next": generic_next,
    "<std::iter::Zip<A, B> as std::iter::Iterator>::next": generic_next,
    "std::iter::range::<impl std::iter::Iterator for std::ops::Range<A>>::next": generic_next,
    "std::iter::Iterator::rev": it_rev,
    "std::iter::Iterator::enumerate": it_enumerate,
    "std::iter::Iterator::zip": it_zip,
    "std::iter::Iterator::cmp": iterator_cmp,
    "core::slice::<impl [T]>::swap": slice_swap,
    "core::slice::<impl [T]>::get": slice_get,
    "core::slice::<impl [T]>::clone_from_slice": clone_from_slice,
    "<u64 as std::ops::BitAndAssign<&u64>>::bitand_assign": op_assign("BitAnd"),
    "<u64 as std::ops::BitOrAssign<&u64>>::bitor_assign": op_assign("BitOr"),
    "<u64 as std::ops::BitXorAssign<&u64>>::bitxor_assign": op_assign("BitXor"),
    "<u32 as std::ops::Shl<&usize>>::shl": ref_binop("Shl", False, True),
    "<u32 as std::ops::Shr<&usize>>::shr": ref_binop("Shr", False, True),
    "core::num::<impl u64>::wrapping_add": wrapping_add,
    "core::num::<impl usize>::wrapping_add": wrapping_add,
    "core::num::<impl u32>::wrapping_add": wrapping_add,
    "core::num::<impl u64>::wrapping_sub": wrapping_sub,
    "core::num::<impl usize>::wrapping_sub": wrapping_sub,
    "std::cmp::min": cmp_min,
    "std::cmp::max": cmp_max,
    "std::cmp::Ord::min": cmp_min,
    "std::cmp::Ord::max": cmp_max,
    "core::num::<impl usize>::count_ones": count_ones,
    "core::num::<impl u32>::count_ones": count_ones,
    "core::num::<impl u64>::count_ones": count_ones,
    "core::num::<impl usize>::trailing_zeros": trailing_zeros,
    "std::vec::from_elem": vec_from_elem,
    "std::vec::Vec::<T>::new": vec_new,
    "std::boxed::Box::<T>::new_uninit": box_new_uninit,
    "std::boxed::box_assume_init_into_vec_unsafe": box_assume_init_into_vec,
    "std::vec::Vec::<T, A>::insert": vec_insert,
    "<std::vec::Vec<T, A> as std::ops::Index<I>>::index": vec_index,
    "<std::vec::Vec<T, A> as std::ops::IndexMut<I>>::index_mut": vec_index,
    "core::slice::<impl [T]>::last": slice_last,
    "std::option::Option::<T>::unwrap": option_unwrap,
    "std::cmp::impls::<impl std::cmp::PartialEq<&B> for &A>::eq": ref_eq,
    "std::cmp::impls::<impl std::cmp::PartialEq<&B> for &A>::ne": ref_eq,
    "std::vec::Vec::<T, A>::retain": vec_retain,
    "std::slice::<impl [T]>::sort": seq_event("sort"),
    "core::slice::<impl [T]>::sort_unstable": seq_event("sort"),
    "std::vec::Vec::<T, A>::dedup": seq_event("dedup"),
    "std::vec::Vec::<T, A>::dedup_by": vec_dedup_by,
    "std::vec::Vec::<T, A>::dedup_by_key": vec_dedup_by_key,
    "std::slice::<impl [T]>::sort_by_key": slice_sort_by_key,
    "std::slice::<impl [T]>::sort_by_cached_key": slice_sort_by_key,
    "core::slice::<impl [T]>::sort_unstable_by_key": slice_sort_by_key,
    "<std::slice::Iter<'a, T> as std::iter::Iterator>::all": slice_iter_all,
    "<std::slice::Iter<'a, T> as std::iter::Iterator>::any": slice_iter_all,
    "core::slice::<impl [T]>::first": slice_first,
    "<std::vec::Vec<T, A> as std::clone::Clone>::clone": vec_clone,
    "std::vec::Vec::<T, A>::push": vec_push,
    "<std::vec::Vec<T, A> as std::iter::Extend<&'a T>>::extend": vec_extend,
    "std::vec::Vec::<T, A>::len": vec_len,
    "std::vec::Vec::<T, A>::is_empty": vec_is_empty,
    "core::slice::<impl [T]>::is_empty": vec_is_empty,
    "std::vec::Vec::<T, A>::into_boxed_slice": vec_into_boxed_slice,
    "<std::boxed::Box<[T], A> as std::clone::Clone>::clone": box_clone,
    "std::clone::impls::<impl std::clone::Clone for usize>::clone": clone_copy,
    "<std::boxed::Box<T, A> as std::cmp::PartialEq>::eq": box_eq,
    "std::array::equality::<impl std::cmp::PartialEq<[U; N]> for [T; N]>::eq": array_eq,
    "std::cmp::impls::<impl std::cmp::Ord for usize>::cmp": ord_cmp_int,
    "std::cmp::impls::<impl std::cmp::Ord for u32>::cmp": ord_cmp_int,
    "std::cmp::Ordering::is_lt": is_lt,
    "<std::cmp::Ordering as std::cmp::PartialEq>::eq": ordering_eq,
    "<std::cmp::Ordering as std::cmp::PartialEq>::ne": ordering_eq,
    "std::cmp::impls::<impl std::cmp::Ord for u64>::cmp": ord_cmp_int,
    "std::cmp::PartialEq::ne": partial_ne,
    "<std::option::Option<T> as std::cmp::PartialEq>::eq": option_eq,
    "<std::option::Option<T> as std::cmp::PartialEq>::ne": option_eq,
    "rand::thread_rng": thread_rng,
    "<rand::prelude::ThreadRng as rand::RngCore>::next_u64": next_u64,
    "core::slice::index::<impl std::ops::IndexMut<I> for [T]>::index_mut": index_mut_range,
    "core::slice::index::<impl std::ops::Index<I> for [T]>::index": index_mut_range,
    "core::panicking::panic": panic_fn,
    "core::panicking::panic_fmt": panic_fn,
    "core::panicking::assert_failed": assert_failed,
    "core::str::<impl str>::is_ascii": str_is_ascii,
    "core::str::<impl str>::len": str_len,
    "core::str::traits::<impl std::ops::Index<I> for str>::index": str_index_range,
    "core::num::<impl u64>::from_str_radix": from_str_radix,
    "core::str::<impl str>::starts_with": str_iter_pred,
    "core::str::<impl str>::ends_with": str_iter_pred,
    "core::str::<impl str>::contains": str_iter_pred,
    "core::str::<impl str>::bytes": str_bytes,
    "core::str::<impl str>::chars": str_bytes,
    "core::str::<impl str>::as_bytes": str_bytes,
    "<std::str::Bytes<'_> as std::iter::Iterator>::all": str_iter_pred,
    "<std::str::Bytes<'_> as std::iter::Iterator>::any": str_iter_pred,
    "<std::str::Chars<'a> as std::iter::Iterator>::all": str_iter_pred,
    "<std::str::Chars<'a> as std::iter::Iterator>::any": str_iter_pred,
    "std::iter::Iterator::all": str_iter_pred,
    "std::iter::Iterator::any": str_iter_pred,
    "<std::result::Result<T, E> as std::ops::Try>::branch": try_branch,
    "<std::result::Result<T, F> as std::ops::FromResidual<std::result::Result<std::convert::Infallible, E>>>::from_residual": from_residual,
}

# ---------------------------------------------------------------------------------- formatting
# A String / the text written to a Formatter is a token list.  Tokens:
#   ('lit', text)                                   literal text
#   ('fmt', kind, flags, width, value)              a formatted value: kind display|lower_hex|binary,
#                                                   flags e.g. '0', width = W or None, value = abstract value
#   ('str_of', name)                                Display text of an opaque symbolic element
# Opaque('string', (tokens,)) ; Opaque('formatter', (tokens,)) ; Opaque('fmtarg', (kind, value)) ;
# Opaque('fmtargs', (literal, args))
import re as _re

_PH = _re.compile(r"\{\{|\}\}|\{([^{}]*)\}")


def fmt_literal(snippet):
    """first string literal of a format macro call"""
    if snippet is None:
        return None
    m = _re.search(r'"((?:[^"\\]|\\.)*)"', snippet)
    if not m:
        return None
    return m.group(1).replace('\\"', '"').replace("\\n", "\n").replace("\\\\", "\\")


def render(literal, args):
    vals = [a for a in args if a.data[0] != "usize"]
    counts = [a for a in args if a.data[0] == "usize"]
    toks = []
    pos = 0
    vi = 0
    for m in _PH.finditer(literal):
        if m.start() > pos:
            toks.append(("lit", literal[pos:m.start()]))
        pos = m.end()
        g = m.group(0)
        if g == "{{":
            toks.append(("lit", "{"))
            continue
        if g == "}}":
            toks.append(("lit", "}"))
            continue
        spec = m.group(1)
        fspec = spec.split(":", 1)[1] if ":" in spec else ""
        flags = "0" if _re.match(r"^[<^>]?[+-]?#?0", fspec) else ""
        width = None
        wm = _re.search(r"(\w+)\$", fspec)
        if wm and counts:
            width = counts[0].data[1]
        else:
            wn = _re.match(r"^[<^>]?[+-]?#?0?(\d+)", fspec)
            if wn:
                width = wconst(64, int(wn.group(1)))
        if vi >= len(vals):
            raise Undecided("format placeholder without argument")
        a = vals[vi]
        vi += 1
        v = a.data[1]
        if isinstance(v, Opaque) and v.kind == "string" and a.data[0] == "display" and width is None:
            toks.extend(v.data[0])
        elif isinstance(v, Opaque) and v.kind == "str" and a.data[0] == "display" and v.data[0] is not None and width is None:
            toks.append(("lit", v.data[0]))
        else:
            toks.append(("fmt", a.data[0], flags, width, v))
    if pos < len(literal):
        toks.append(("lit", literal[pos:]))
    return tuple(toks)


def fmt_argument(kind):
    def f(i, fr, st, pc, a, t, fn, r):
        v = i.read_ptr(st, a[0]) if isinstance(a[0], Ptr) else a[0]
        while isinstance(v, Ptr) and v.kind == "ref" and v.sl is None:
            v = i.read_ptr(st, v)
        return _ret(i, st, pc, Opaque("fmtarg", (kind, v)))
    return f


def fmt_arguments_new(i, fr, st, pc, a, t, fn, r):
    lit = fmt_literal(t.get("snippet"))
    if lit is None:
        raise Undecided("format string literal not found")
    args = list(i.slice_elems(st, a[1])) if isinstance(a[1], Ptr) else []
    return _ret(i, st, pc, Opaque("fmtargs", (lit, tuple(args))))


def fmt_arguments_from_str(i, fr, st, pc, a, t, fn, r):
    s = a[0]
    if not (isinstance(s, Opaque) and s.kind == "str" and s.data[0] is not None):
        raise Undecided("Arguments::from_str of %r" % (s,))
    return _ret(i, st, pc, Opaque("fmtargs", (s.data[0].replace("{", "{{").replace("}", "}}"), ())))


def fmt_format(i, fr, st, pc, a, t, fn, r):
    fa = a[0]
    return _ret(i, st, pc, Opaque("string", (render(fa.data[0], fa.data[1]),)))


def fmt_write_fmt(i, fr, st, pc, a, t, fn, r):
    fp, fa = a
    f = i.read_ptr(st, fp)
    if not (isinstance(f, Opaque) and f.kind == "formatter"):
        raise Undecided("write_fmt on %r" % (f,))
    i.write_ptr(st, fp, Opaque("formatter", (f.data[0] + render(fa.data[0], fa.data[1]),)))
    return _ret(i, st, pc, Agg("adt", RESULT, 0, (UNIT,)))


def string_new(i, fr, st, pc, a, t, fn, r):
    return _ret(i, st, pc, Opaque("string", ((),)))


def string_tokens(i, st, v):
    v = i.read_ptr(st, v) if isinstance(v, Ptr) else v
    if isinstance(v, Opaque) and v.kind == "string":
        return v.data[0]
    if isinstance(v, Opaque) and v.kind == "bstr":
        bs = v.data[0]
        if all(b.val is not None for b in bs):
            return (("lit", "".join(chr(b.val) for b in bs)),) if bs else ()
        return (("bytes", tuple(bs)),)
    if isinstance(v, W) and v.width in (8, 32):
        # a char / byte pushed onto a string (single-byte characters)
        if v.val is not None:
            return (("lit", chr(v.val)),)
        return (("bytes", (W(8, bits=v.all_bits()[:8]),)),)
    if isinstance(v, Opaque) and v.kind == "str" and v.data[0] is not None:
        return (("lit", v.data[0]),) if v.data[0] else ()
    raise Undecided("text of %r" % (v,))


def string_push_str(i, fr, st, pc, a, t, fn, r):
    s = i.read_ptr(st, a[0])
    i.write_ptr(st, a[0], Opaque("string", (s.data[0] + string_tokens(i, st, a[1]),)))
    return _ret(i, st, pc, UNIT)


def string_deref(i, fr, st, pc, a, t, fn, r):
    return _ret(i, st, pc, i.read_ptr(st, a[0]))


def to_string(i, fr, st, pc, a, t, fn, r):
    v = i.read_ptr(st, a[0]) if isinstance(a[0], Ptr) else a[0]
    while isinstance(v, Ptr) and v.sl is None:
        v = i.read_ptr(st, v)
    if isinstance(v, Opaque) and v.kind in ("str", "string"):
        return _ret(i, st, pc, Opaque("string", (string_tokens(i, st, v),)))
    if isinstance(v, Agg) and v.kind == "adt":
        from .sopmodel import elem_name
        nm = elem_name(v)
        if nm is not None and getattr(i, "opaque_elements", False):
            return _ret(i, st, pc, Opaque("string", ((("str_of", nm),),)))
        # run the local Display impl on a fresh formatter
        cands = [b for b, sty, tr in i.facts.trait_impl_methods("std::fmt::Display") if sty.get("path") == v.key]
        if cands:
            cell, fc = new_cell(), new_cell()
            st.mem[cell] = v
            st.mem[fc] = Opaque("formatter", ((),))
            outs = i.call_mir(cands[0], cands[0]["mir"], [Ptr(cell, ()), Ptr(fc, ())], st, dict(fr.env), fr.depth + 1, pc)
            res = []
            for o in outs:
                if o.kind == "return":
                    res.append(Outcome("return", o.state, o.pc, Opaque("string", (i.read_ptr(o.state, Ptr(fc, ())).data[0],))))
                else:
                    res.append(o)
            return res
    raise Undecided("to_string of %r" % (v,))


def slice_join(i, fr, st, pc, a, t, fn, r):
    items = list(i.slice_elems(st, a[0]))
    sep = string_tokens(i, st, a[1])
    toks = ()
    for k, it_ in enumerate(items):
        if k:
            toks += sep
        toks += string_tokens(i, st, it_)
    return _ret(i, st, pc, Opaque("string", (toks,)))


def it_map(i, fr, st, pc, a, t, fn, r):
    return _ret(i, st, pc, Opaque("map", (a[0], a[1])))


def it_collect(i, fr, st, pc, a, t, fn, r):
    src = a[0]
    if not (isinstance(src, Opaque) and src.kind == "map"):
        raise Undecided("collect of %r" % (src,))
    inner, clos = src.data
    work = [(st, pc, [], inner)]
    done = []
    while work:
        s, p, acc, cur = work.pop()
        cur2, item = iter_next(i, s, cur)
        if item is None:
            cell = new_cell()
            s.mem[cell] = Arr(acc)
            done.append(Outcome("return", s, p, Ptr(cell, (), (0, len(acc)), "vec")))
            continue
        for o in call_closure(i, fr, s, p, clos, [item]):
            if o.kind != "return":
                done.append(o)
            else:
                work.append((o.state, o.pc, acc + [o.value], cur2))
    return done


def it_skip(i, fr, st, pc, a, t, fn, r):
    it, n = a
    if n.val is None:
        raise Undecided("symbolic skip")
    for _ in range(n.val):
        it, x = iter_next(i, st, it)
        if x is None:
            break
    return _ret(i, st, pc, it)


TABLE.update({
    "core::fmt::rt::Argument::<'_>::new_display": fmt_argument("display"),
    "core::fmt::rt::Argument::<'_>::new_lower_hex": fmt_argument("lower_hex"),
    "core::fmt::rt::Argument::<'_>::new_upper_hex": fmt_argument("upper_hex"),
    "core::fmt::rt::Argument::<'_>::new_binary": fmt_argument("binary"),
    "core::fmt::rt::Argument::<'_>::new_debug": fmt_argument("debug"),
    "core::fmt::rt::Argument::<'_>::from_usize": fmt_argument("usize"),
    "std::fmt::Arguments::<'a>::new": fmt_arguments_new,
    "std::fmt::Arguments::<'a>::from_str": fmt_arguments_from_str,
    "std::fmt::format": fmt_format,
    "std::hint::must_use": identity,
    "std::fmt::Formatter::<'a>::write_fmt": fmt_write_fmt,
    "std::string::String::new": string_new,
    "std::string::String::push_str": string_push_str,
    "<std::string::String as std::ops::Deref>::deref": string_deref,
    "<T as std::string::ToString>::to_string": to_string,
    "std::slice::<impl [T]>::join": slice_join,
    "std::iter::Iterator::map": it_map,
    "std::iter::Iterator::collect": it_collect,
    "std::iter::Iterator::skip": it_skip,
})

# ---------------------------------------------------------------------------------- integers
_INT_RE = _re.compile(r"^core::num::<impl (u8|u16|u32|u64|u128|usize|i8|i16|i32|i64|isize)>::(\w+)$")


def int_method(i, fr, st, pc, a, t, fn, r, name=None, tyname=None):
    from .absint import w_add, w_sub, w_shl, w_shr, w_not
    x = a[0]
    if not isinstance(x, W):
        raise Undecided("integer method %s on %r" % (name, x))
    w = x.width
    conc = all(isinstance(v, W) and v.val is not None for v in a)

    def opt(v):
        return some(v) if v is not None else NONE
    if name in ("wrapping_shl", "wrapping_shr", "unbounded_shl", "unbounded_shr", "overflowing_shl", "overflowing_shr", "checked_shl", "checked_shr"):
        k = a[1]
        if k.val is None:
            raise Undecided("symbolic shift amount")
        left = name.endswith("shl")
        big = k.val >= w
        if name.startswith("wrapping") or name.startswith("overflowing"):
            res = w_shl(x, k.val % w) if left else w_shr(x, k.val % w)
            if name.startswith("overflowing"):
                return _ret(i, st, pc, Agg("tuple", None, 0, (res, wbool(big))))
            return _ret(i, st, pc, res)
        if name.startswith("unbounded"):
            return _ret(i, st, pc, wconst(w, 0) if big else (w_shl(x, k.val) if left else w_shr(x, k.val)))
        return _ret(i, st, pc, NONE if big else some(w_shl(x, k.val) if left else w_shr(x, k.val)))
    if name in ("wrapping_add", "wrapping_sub"):
        return _ret(i, st, pc, (w_add if name.endswith("add") else w_sub)(x, a[1])[0])
    if name in ("overflowing_add", "overflowing_sub"):
        res, c = (w_add if name.endswith("add") else w_sub)(x, a[1])
        return _ret(i, st, pc, Agg("tuple", None, 0, (res, W(1, bits=[c]))))
    if name in ("checked_add", "checked_sub", "saturating_add", "saturating_sub", "checked_mul", "wrapping_mul", "saturating_mul", "pow", "checked_pow", "wrapping_neg", "abs_diff", "min", "max", "rem_euclid", "div_euclid", "checked_div", "checked_rem", "next_power_of_two", "is_power_of_two", "ilog2", "leading_zeros", "trailing_ones", "leading_ones", "count_zeros", "rotate_left", "rotate_right", "swap_bytes", "reverse_bits"):
        if not conc and name == "leading_zeros":
            return _ret(i, st, pc, _zeros_count(x, True))
        if not conc and name in ("trailing_ones", "leading_ones"):
            inv = W(w, bits=[B.bnot(b_) for b_ in x.all_bits()], signed=x.signed)
            return _ret(i, st, pc, _zeros_count(inv, name == "leading_ones"))
        if not conc and name == "count_zeros":
            inv = W(w, bits=[B.bnot(b_) for b_ in x.all_bits()], signed=x.signed)
            return count_ones(i, fr, st, pc, [inv], t, fn, r)
        if not conc and name == "wrapping_neg":
            return _ret(i, st, pc, w_sub(W(w, val=0, signed=x.signed), x)[0])
        if not conc and name == "wrapping_mul" and len(a) == 2 and isinstance(a[1], W) and (x.val is not None or a[1].val is not None):
            # multiplication by a constant: shift-and-add over the set bits of the constant (exact bit functions)
            sym, k = (x, a[1].val) if a[1].val is not None else (a[1], x.val)
            acc = W(w, val=0, signed=x.signed)
            for sh in range(w):
                if (k >> sh) & 1:
                    acc = w_add(acc, w_shl(sym, sh))[0]
            return _ret(i, st, pc, acc)
        if not conc:
            raise Undecided("symbolic %s" % name)
        M = (1 << w) - 1
        xv = x.val
        yv = a[1].val if len(a) > 1 else None
        if name == "checked_add":
            return _ret(i, st, pc, opt(W(w, val=xv + yv) if xv + yv <= M else None))
        if name == "checked_sub":
            return _ret(i, st, pc, opt(W(w, val=xv - yv) if xv >= yv else None))
        if name == "saturating_add":
            return _ret(i, st, pc, W(w, val=min(M, xv + yv)))
        if name == "saturating_sub":
            return _ret(i, st, pc, W(w, val=max(0, xv - yv)))
        if name == "checked_mul":
            return _ret(i, st, pc, opt(W(w, val=xv * yv) if xv * yv <= M else None))
        if name == "wrapping_mul":
            return _ret(i, st, pc, W(w, val=xv * yv))
        if name == "saturating_mul":
            return _ret(i, st, pc, W(w, val=min(M, xv * yv)))
        if name == "pow":
            if xv ** yv > M:
                return i.panic(st, pc, "attempt to multiply with overflow (pow)", fr, t)
            return _ret(i, st, pc, W(w, val=xv ** yv))
        if name == "checked_pow":
            return _ret(i, st, pc, opt(W(w, val=xv ** yv) if xv ** yv <= M else None))
        if name == "wrapping_neg":
            return _ret(i, st, pc, W(w, val=-xv))
        if name == "abs_diff":
            return _ret(i, st, pc, W(w, val=abs(xv - yv)))
        if name in ("min", "max"):
            return _ret(i, st, pc, W(w, val=min(xv, yv) if name == "min" else max(xv, yv)))
        if name in ("rem_euclid", "checked_rem"):
            if yv == 0:
                return _ret(i, st, pc, NONE) if name.startswith("checked") else i.panic(st, pc, "remainder by zero", fr, t)
            return _ret(i, st, pc, some(W(w, val=xv % yv)) if name.startswith("checked") else W(w, val=xv % yv))
        if name in ("div_euclid", "checked_div"):
            if yv == 0:
                return _ret(i, st, pc, NONE) if name.startswith("checked") else i.panic(st, pc, "division by zero", fr, t)
            return _ret(i, st, pc, some(W(w, val=xv // yv)) if name.startswith("checked") else W(w, val=xv // yv))
        if name == "next_power_of_two":
            return _ret(i, st, pc, W(w, val=1 if xv <= 1 else 1 << (xv - 1).bit_length()))
        if name == "is_power_of_two":
            return _ret(i, st, pc, wbool(xv != 0 and xv & (xv - 1) == 0))
        if name == "ilog2":
            if xv == 0:
                return i.panic(st, pc, "ilog2 of zero", fr, t)
            return _ret(i, st, pc, wconst(32, xv.bit_length() - 1))
        if name == "leading_zeros":
            return _ret(i, st, pc, wconst(32, w - xv.bit_length()))
        if name == "trailing_ones":
            return _ret(i, st, pc, wconst(32, ((~xv & M) & -(~xv & M)).bit_length() - 1 if xv != M else w))
        if name == "leading_ones":
            return _ret(i, st, pc, wconst(32, w - ((~xv) & M).bit_length()))
        if name == "count_zeros":
            return _ret(i, st, pc, wconst(32, w - bin(xv).count("1")))
        if name in ("rotate_left", "rotate_right"):
            k = yv % w
            if name == "rotate_right":
                k = (w - k) % w
            return _ret(i, st, pc, W(w, val=((xv << k) | (xv >> (w - k))) & M if k else xv))
        if name == "swap_bytes":
            return _ret(i, st, pc, W(w, val=int.from_bytes(xv.to_bytes(w // 8, "little"), "big")))
        if name == "reverse_bits":
            return _ret(i, st, pc, W(w, val=int(format(xv, "0%db" % w)[::-1], 2)))
    if name == "count_ones":
        return count_ones(i, fr, st, pc, a, t, fn, r)
    if name == "trailing_zeros":
        return trailing_zeros(i, fr, st, pc, a, t, fn, r)
    raise Undecided("unmodelled:integer method %s" % name)


# ---------------------------------------------------------------------------------- sequence comparison
def _seq_values(i, st, v):
    """elements of a slice / array / Vec / Box<[T]> value or reference"""
    while isinstance(v, Ptr) and v.sl is None:
        tgt = i.read_ptr(st, v)
        if isinstance(tgt, (Ptr, Arr)):
            v = tgt
        else:
            break
    if isinstance(v, Arr):
        return list(v.elems)
    if isinstance(v, Ptr):
        return list(i.slice_elems(st, v))
    raise Undecided("sequence view of %r" % (v,))


def seq_cmp(partial):
    def f(i, fr, st, pc, a, t, fn, r):
        la, lb = _seq_values(i, st, a[0]), _seq_values(i, st, a[1])
        if all(isinstance(v, W) and v.val is not None for v in la + lb):
            ka, kb = [v.val for v in la], [v.val for v in lb]
            res = ordering((ka > kb) - (ka < kb))
        elif all(isinstance(v, W) for v in la + lb):
            if getattr(i, "cmp_split", False):
                return [Outcome(o.kind, o.state, o.pc, some(o.value) if (partial and o.kind == "return") else o.value, getattr(o, "info", None)) if o.kind == "return" else o
                        for o in _lex_split(i, fr, st, pc, la, lb, t)]
            res = Opaque("lexcmp", (tuple(la), tuple(lb)))
        else:
            raise Undecided("comparison of non-integer sequences")
        return _ret(i, st, pc, some(res) if partial else res)
    return f


def seq_eq(i, fr, st, pc, a, t, fn, r):
    la, lb = _seq_values(i, st, a[0]), _seq_values(i, st, a[1])
    if len(la) != len(lb):
        return _ret(i, st, pc, wbool(False))
    acc = wbool(True)
    for x, y in zip(la, lb):
        if not (isinstance(x, W) and isinstance(y, W)):
            raise Undecided("equality of non-integer sequences")
        acc = b_and(acc, w_eq(x, y))
    return _ret(i, st, pc, acc)


# ---------------------------------------------------------------------------------- more iterator adaptors
def it_step_by(i, fr, st, pc, a, t, fn, r):
    it, n = a
    if n.val is None or n.val == 0:
        raise Undecided("step_by amount")
    return _ret(i, st, pc, Opaque("step_by", (it, n, wbool(True))))


def it_take(i, fr, st, pc, a, t, fn, r):
    it, n = a
    if n.val is None:
        raise Undecided("symbolic take")
    return _ret(i, st, pc, Opaque("take", (it, n)))


def it_chain(i, fr, st, pc, a, t, fn, r):
    return _ret(i, st, pc, Opaque("chain", (a[0], a[1])))


def it_filter(i, fr, st, pc, a, t, fn, r):
    return _ret(i, st, pc, Opaque("filter", (a[0], a[1])))


def filter_next(i, fr, st, pc, a, t, fn, r):
    """next() of a filter adaptor whose predicate may be symbolic: one path per decision"""
    itp = a[0]
    it = i.read_ptr(st, itp)
    if not (isinstance(it, Opaque) and it.kind == "filter"):
        return generic_next(i, fr, st, pc, a, t, fn, r)
    inner, clos = it.data
    work = [(st, pc, inner)]
    done = []
    while work:
        s, p, cur = work.pop()
        cur2, item = iter_next(i, s, cur)
        if item is None:
            i.write_ptr(s, itp, Opaque("filter", (cur2, clos)))
            done.append(Outcome("return", s, p, NONE))
            continue
        cell = new_cell()
        s.mem[cell] = item
        for o in call_closure(i, fr, s, p, clos, [Ptr(cell, ())]):
            if o.kind != "return":
                done.append(o)
                continue
            v = o.value
            if isinstance(v, W) and v.val is not None:
                if v.val:
                    i.write_ptr(o.state, itp, Opaque("filter", (cur2, clos)))
                    done.append(Outcome("return", o.state, o.pc, some(item)))
                else:
                    work.append((o.state, o.pc, cur2))
            else:
                s2 = o.state.fork()
                i.write_ptr(o.state, itp, Opaque("filter", (cur2, clos)))
                done.append(Outcome("return", o.state, o.pc + (v,), some(item)))
                work.append((s2, o.pc + (b_not(v),), cur2))
        if len(work) + len(done) > i.max_paths:
            raise Undecided("path budget in filter")
    return done


_old_iter_next = iter_next


def iter_next(interp, st, it, back=False):  # noqa: F811  (extends the basic adaptors)
    k = it.kind if isinstance(it, Opaque) else None
    if k == "step_by":
        inner, n, first = it.data
        cur = inner
        if not first.val:
            for _ in range(n.val - 1):
                cur, x = _old_iter_next(interp, st, cur, back)
                if x is None:
                    return Opaque("step_by", (cur, n, wbool(False))), None
        cur, x = iter_next(interp, st, cur, back)
        return Opaque("step_by", (cur, n, wbool(False))), x
    if k == "take":
        inner, n = it.data
        if n.val == 0:
            return it, None
        inner2, x = iter_next(interp, st, inner, back)
        return Opaque("take", (inner2, usize(n.val - 1))), x
    if k == "chain":
        a_, b_ = it.data
        if a_ is not None:
            a2, x = iter_next(interp, st, a_, back)
            if x is not None:
                return Opaque("chain", (a2, b_)), x
        b2, x = iter_next(interp, st, b_, back)
        return Opaque("chain", (None, b2)), x
    if k == "str_iter":
        raise Undecided("iteration over the characters of a symbolic string")
    return _old_iter_next(interp, st, it, back)


# ---------------------------------------------------------------------------------- rand extras
def rng_gen_range(i, fr, st, pc, a, t, fn, r):
    rg = a[1]
    if not (isinstance(rg, Agg) and len(rg.fields) == 2):
        raise Undecided("gen_range argument %r" % (rg,))
    lo, hi = rg.fields
    if lo.val is None or hi.val is None:
        raise Undecided("symbolic gen_range bounds")
    inclusive = "Inclusive" in (rg.key or "")
    span = hi.val - lo.val + (1 if inclusive else 0)
    if span <= 0:
        return i.panic(st, pc, "gen_range on an empty range", fr, t)
    k = i.rng_calls
    i.rng_calls += 1
    if span == 1:
        return _ret(i, st, pc, W(lo.width, val=lo.val))
    nb = (span - 1).bit_length()
    if lo.val == 0 and span == 1 << nb:
        return _ret(i, st, pc, W(lo.width, bits=[B.atom("rng%d[%d]" % (k, b)) for b in range(nb)] + [ZERO] * (lo.width - nb)))
    # not a power-of-two span: the draw is not a plain copy of generator bits
    return _ret(i, st, pc, W(lo.width, bits=[B.atom("rngrange%d[%d]" % (k, b)) for b in range(nb)] + [ZERO] * (lo.width - nb)) if lo.val == 0 else wtop(lo.width))


def rng_gen(i, fr, st, pc, a, t, fn, r):
    out_ty = (r or fn)["args"][-1] if (r or fn).get("args") else None
    w = out_ty.get("w") if isinstance(out_ty, dict) and out_ty.get("k") == "uint" else None
    if w is None:
        raise Undecided("Rng::gen of a non-integer type")
    k = i.rng_calls
    i.rng_calls += 1
    return _ret(i, st, pc, W(w, bits=[B.atom("rng%d[%d]" % (k, b)) for b in range(w)]))


def next_u32(i, fr, st, pc, a, t, fn, r):
    k = i.rng_calls
    i.rng_calls += 1
    return _ret(i, st, pc, W(32, bits=[B.atom("rng%d[%d]" % (k, b)) for b in range(32)]))


TABLE.update({
    "std::iter::Iterator::step_by": it_step_by,
    "std::iter::Iterator::take": it_take,
    "std::iter::Iterator::chain": it_chain,
    "std::iter::Iterator::filter": it_filter,
    "<std::iter::Filter<I, P> as std::iter::Iterator>::next": filter_next,
    "<std::iter::StepBy<I> as std::iter::Iterator>::next": generic_next,
    "<std::iter::Take<I> as std::iter::Iterator>::next": generic_next,
    "<std::iter::Skip<I> as std::iter::Iterator>::next": generic_next,
    "<std::iter::Chain<A, B> as std::iter::Iterator>::next": generic_next,
    "core::slice::cmp::<impl std::cmp::Ord for [T]>::cmp": seq_cmp(False),
    "core::slice::cmp::<impl std::cmp::PartialOrd for [T]>::partial_cmp": seq_cmp(True),
    "std::array::<impl std::cmp::Ord for [T; N]>::cmp": seq_cmp(False),
    "std::array::<impl std::cmp::PartialOrd for [T; N]>::partial_cmp": seq_cmp(True),
    "<std::vec::Vec<T, A> as std::cmp::Ord>::cmp": seq_cmp(False),
    "<std::boxed::Box<T, A> as std::cmp::Ord>::cmp": seq_cmp(False),
    "<std::boxed::Box<T, A> as std::cmp::PartialOrd>::partial_cmp": seq_cmp(True),
    "core::slice::cmp::<impl std::cmp::PartialEq<[U]> for [T]>::eq": seq_eq,
    "rand::Rng::gen_range": rng_gen_range,
    "rand::Rng::gen": rng_gen,
    "<rand::prelude::ThreadRng as rand::RngCore>::next_u32": next_u32,
})


def iter_next_multi(i, fr, st, pc, it):
    """like iter_next but supports adaptors whose closures may split paths (filter, map).
    -> list of (state, pc, iterator', item-or-None) plus non-return outcomes"""
    k = it.kind if isinstance(it, Opaque) else None
    if k == "filter":
        inner, clos = it.data
        res, others = [], []
        work = [(st, pc, inner)]
        while work:
            s, p, cur = work.pop()
            subs, oth = iter_next_multi(i, fr, s, p, cur)
            others.extend(oth)
            for s1, p1, cur2, item in subs:
                if item is None:
                    res.append((s1, p1, Opaque("filter", (cur2, clos)), None))
                    continue
                cell = new_cell()
                s1.mem[cell] = item
                for o in call_closure(i, fr, s1, p1, clos, [Ptr(cell, ())]):
                    if o.kind != "return":
                        others.append(o)
                        continue
                    v = o.value
                    if isinstance(v, W) and v.val is not None:
                        if v.val:
                            res.append((o.state, o.pc, Opaque("filter", (cur2, clos)), item))
                        else:
                            work.append((o.state, o.pc, cur2))
                    else:
                        s2 = o.state.fork()
                        res.append((o.state, o.pc + (v,), Opaque("filter", (cur2, clos)), item))
                        work.append((s2, o.pc + (b_not(v),), cur2))
            if len(work) + len(res) > i.max_paths:
                raise Undecided("path budget in filter")
        return res, others
    if k == "map":
        inner, clos = it.data
        res, others = [], []
        subs, oth = iter_next_multi(i, fr, st, pc, inner)
        others.extend(oth)
        for s1, p1, cur2, item in subs:
            if item is None:
                res.append((s1, p1, Opaque("map", (cur2, clos)), None))
                continue
            for o in call_closure(i, fr, s1, p1, clos, [item]):
                if o.kind != "return":
                    others.append(o)
                else:
                    res.append((o.state, o.pc, Opaque("map", (cur2, clos)), o.value))
        return res, others
    if k == "enumerate" and _has_split_adaptor(it):
        inner, cnt = it.data
        subs, oth = iter_next_multi(i, fr, st, pc, inner)
        return [(s1, p1, Opaque("enumerate", (cur2, cnt if item is None else usize(cnt.val + 1))), None if item is None else Agg("tuple", None, 0, (cnt, item))) for s1, p1, cur2, item in subs], oth
    if k == "take" and _has_split_adaptor(it):
        inner, cnt = it.data
        if cnt.val == 0:
            return [(st, pc, it, None)], []
        subs, oth = iter_next_multi(i, fr, st, pc, inner)
        return [(s1, p1, Opaque("take", (cur2, usize(cnt.val - 1))), item) for s1, p1, cur2, item in subs], oth
    if k in ("rev", "step_by", "chain", "zip") and _has_split_adaptor(it):
        raise Undecided("adaptor %s over a filter/map" % k)
    it2, item = iter_next(i, st, it)
    return [(st, pc, it2, item)], []


def _has_split_adaptor(it):
    if isinstance(it, Opaque):
        if it.kind in ("filter", "map"):
            return True
        return any(_has_split_adaptor(x) for x in it.data)
    return False


def multi_next(i, fr, st, pc, a, t, fn, r):
    itp = a[0]
    it = i.read_ptr(st, itp)
    subs, others = iter_next_multi(i, fr, st, pc, it)
    outs = list(others)
    for s1, p1, it2, item in subs:
        i.write_ptr(s1, itp, it2)
        outs.append(Outcome("return", s1, p1, NONE if item is None else some(item)))
    return outs


def it_collect(i, fr, st, pc, a, t, fn, r):  # noqa: F811
    src = a[0]
    work = [(st, pc, [], src)]
    done = []
    while work:
        s, p, acc, cur = work.pop()
        subs, others = iter_next_multi(i, fr, s, p, cur)
        done.extend(others)
        for s1, p1, cur2, item in subs:
            if item is None:
                cell = new_cell()
                s1.mem[cell] = Arr(acc)
                done.append(Outcome("return", s1, p1, Ptr(cell, (), (0, len(acc)), "vec")))
            else:
                work.append((s1, p1, acc + [item], cur2))
        if len(work) + len(done) > i.max_paths:
            raise Undecided("path budget in collect")
    return done


TABLE.update({
    "std::iter::Iterator::collect": it_collect,
    "<std::iter::Filter<I, P> as std::iter::Iterator>::next": multi_next,
    "<std::iter::Map<I, F> as std::iter::Iterator>::next": multi_next,
})


# ---------------------------------------------------------------------------------- more of std (breadth: so that
# rewrites using other idioms stay analysable instead of UNDECIDED)
_OPS_RE = _re.compile(r"^<(&)?(u8|u16|u32|u64|u128|usize|bool) as std::ops::(BitAnd|BitOr|BitXor|Shl|Shr|Add|Sub|Not|Mul)(Assign)?(?:<(&)?(\w+)>)?>::(\w+)$")


def _prim_ops_dispatch(path):
    m = _OPS_RE.match(path)
    if not m:
        return None
    lref, _, op, assign, rref, _, _ = m.groups()

    def h(i, fr, st, pc, a, t, fn, r):
        if op == "Not":
            x = i.read_ptr(st, a[0]) if isinstance(a[0], Ptr) else a[0]
            return _ret(i, st, pc, b_not(x))
        y = i.read_ptr(st, a[1]) if isinstance(a[1], Ptr) else a[1]
        if assign:
            cur = i.read_ptr(st, a[0])
            i.write_ptr(st, a[0], i.binop(op, cur, y, fr))
            return _ret(i, st, pc, UNIT)
        x = i.read_ptr(st, a[0]) if isinstance(a[0], Ptr) else a[0]
        return _ret(i, st, pc, i.binop(op, x, y, fr))
    return h


def it_copied(i, fr, st, pc, a, t, fn, r):
    return _ret(i, st, pc, Opaque("copied", (a[0],)))


def it_sum_count(kind):
    def f(i, fr, st, pc, a, t, fn, r):
        it = a[0]
        from .absint import w_add
        acc = None
        n = 0
        while True:
            it, x = iter_next(i, st, it)
            if x is None:
                break
            x = load_items(i, st, x)
            n += 1
            if kind == "sum":
                if not isinstance(x, W):
                    raise Undecided("sum of non-integers")
                acc = x if acc is None else w_add(acc, x)[0]
        if kind == "count":
            return _ret(i, st, pc, usize(n))
        return _ret(i, st, pc, acc if acc is not None else usize(0))
    return f


def slice_contains(i, fr, st, pc, a, t, fn, r):
    elems = _seq_values(i, st, a[0])
    x = i.read_ptr(st, a[1]) if isinstance(a[1], Ptr) else a[1]
    acc = wbool(False)
    for e in elems:
        if isinstance(e, W) and isinstance(x, W):
            eq = w_eq(e, x)
        elif isinstance(e, Agg) and isinstance(x, Agg) and not e.fields and not x.fields:
            eq = wbool(e.variant == x.variant and e.key == x.key)
        else:
            raise Undecided("contains on %r" % (e,))
        acc = b_not(b_and(b_not(acc), b_not(eq)))
    return _ret(i, st, pc, acc)


def vec_with_capacity(i, fr, st, pc, a, t, fn, r):
    return vec_new(i, fr, st, pc, a, t, fn, r)


def vec_extend_from_slice(i, fr, st, pc, a, t, fn, r):
    h = i.read_ptr(st, a[0])
    _vec_set(i, st, a[0], list(i.slice_elems(st, h)) + list(_seq_values(i, st, a[1])))
    return _ret(i, st, pc, UNIT)


def vec_pop(i, fr, st, pc, a, t, fn, r):
    h = i.read_ptr(st, a[0])
    el = list(i.slice_elems(st, h))
    if not el:
        return _ret(i, st, pc, NONE)
    _vec_set(i, st, a[0], el[:-1])
    return _ret(i, st, pc, some(el[-1]))


def vec_clear(i, fr, st, pc, a, t, fn, r):
    _vec_set(i, st, a[0], [])
    return _ret(i, st, pc, UNIT)


def vec_truncate(i, fr, st, pc, a, t, fn, r):
    h = i.read_ptr(st, a[0])
    if a[1].val is None:
        raise Undecided("symbolic truncate")
    _vec_set(i, st, a[0], list(i.slice_elems(st, h))[: a[1].val])
    return _ret(i, st, pc, UNIT)


def vec_remove(i, fr, st, pc, a, t, fn, r):
    h = i.read_ptr(st, a[0])
    el = list(i.slice_elems(st, h))
    if a[1].val is None:
        raise Undecided("symbolic remove")
    if a[1].val >= len(el):
        return i.panic(st, pc, "removal index out of bounds", fr, t)
    x = el.pop(a[1].val)
    _vec_set(i, st, a[0], el)
    return _ret(i, st, pc, x)


def slice_reverse(i, fr, st, pc, a, t, fn, r):
    i.write_slice(st, a[0], list(reversed(i.slice_elems(st, a[0]))))
    return _ret(i, st, pc, UNIT)


def slice_fill(i, fr, st, pc, a, t, fn, r):
    i.write_slice(st, a[0], [a[1]] * i.slice_len(st, a[0]))
    return _ret(i, st, pc, UNIT)


def slice_to_vec(i, fr, st, pc, a, t, fn, r):
    cell = new_cell()
    el = list(_seq_values(i, st, a[0]))
    st.mem[cell] = Arr(el)
    return _ret(i, st, pc, Ptr(cell, (), (0, len(el)), "vec"))


def option_is(which):
    def f(i, fr, st, pc, a, t, fn, r):
        v = i.read_ptr(st, a[0]) if isinstance(a[0], Ptr) else a[0]
        if not isinstance(v, Agg):
            raise Undecided("Option/Result query on %r" % (v,))
        return _ret(i, st, pc, wbool(v.variant == which))
    return f


def option_unwrap_or(i, fr, st, pc, a, t, fn, r):
    v = a[0]
    if not isinstance(v, Agg):
        raise Undecided("unwrap_or on %r" % (v,))
    return _ret(i, st, pc, v.fields[0] if v.variant == 1 else a[1])


def result_unwrap(i, fr, st, pc, a, t, fn, r):
    v = a[0]
    if not isinstance(v, Agg):
        raise Undecided("unwrap on %r" % (v,))
    if v.variant != 0:
        return i.panic(st, pc, "called `Result::unwrap()` on an `Err` value", fr, t)
    return _ret(i, st, pc, v.fields[0])


def mem_swap(i, fr, st, pc, a, t, fn, r):
    x, y = i.read_ptr(st, a[0]), i.read_ptr(st, a[1])
    i.write_ptr(st, a[0], y)
    i.write_ptr(st, a[1], x)
    return _ret(i, st, pc, UNIT)


def mem_replace(i, fr, st, pc, a, t, fn, r):
    x = i.read_ptr(st, a[0])
    i.write_ptr(st, a[0], a[1])
    return _ret(i, st, pc, x)


def array_clone(i, fr, st, pc, a, t, fn, r):
    return _ret(i, st, pc, i.read_ptr(st, a[0]))


_old_iter_next2 = iter_next


def iter_next(interp, st, it, back=False):  # noqa: F811
    if isinstance(it, Opaque) and it.kind == "copied":
        inner, x = iter_next(interp, st, it.data[0], back)
        if x is not None and isinstance(x, Ptr):
            x = interp.read_ptr(st, x)
        return Opaque("copied", (inner,)), x
    return _old_iter_next2(interp, st, it, back)


TABLE.update({
    "std::iter::Iterator::copied": it_copied,
    "std::iter::Iterator::cloned": it_copied,
    "<std::iter::Copied<I> as std::iter::Iterator>::next": generic_next,
    "<std::iter::Cloned<I> as std::iter::Iterator>::next": generic_next,
    "std::iter::Iterator::sum": it_sum_count("sum"),
    "std::iter::Iterator::count": it_sum_count("count"),
    "core::slice::<impl [T]>::contains": slice_contains,
    "std::vec::Vec::<T>::with_capacity": vec_with_capacity,
    "std::vec::Vec::<T, A>::extend_from_slice": vec_extend_from_slice,
    "std::vec::Vec::<T, A>::pop": vec_pop,
    "std::vec::Vec::<T, A>::clear": vec_clear,
    "std::vec::Vec::<T, A>::truncate": vec_truncate,
    "std::vec::Vec::<T, A>::remove": vec_remove,
    "core::slice::<impl [T]>::reverse": slice_reverse,
    "core::slice::<impl [T]>::fill": slice_fill,
    "core::slice::<impl [T]>::copy_from_slice": clone_from_slice,
    "std::slice::<impl [T]>::to_vec": slice_to_vec,
    "std::option::Option::<T>::is_some": option_is(1),
    "std::option::Option::<T>::is_none": option_is(0),
    "std::result::Result::<T, E>::is_ok": option_is(0),
    "std::result::Result::<T, E>::is_err": option_is(1),
    "std::option::Option::<T>::unwrap_or": option_unwrap_or,
    "std::option::Option::<T>::expect": option_unwrap,
    "std::result::Result::<T, E>::unwrap": result_unwrap,
    "std::mem::swap": mem_swap,
    "std::mem::replace": mem_replace,
    "std::array::<impl std::clone::Clone for [T; N]>::clone": array_clone,
    "std::clone::impls::<impl std::clone::Clone for u64>::clone": clone_copy,
    "std::clone::impls::<impl std::clone::Clone for u32>::clone": clone_copy,
    "std::clone::impls::<impl std::clone::Clone for bool>::clone": clone_copy,
})


# ---------------------------------------------------------------------------------- flat_map / array map / owned iteration
def it_flat_map(i, fr, st, pc, a, t, fn, r):
    return _ret(i, st, pc, Opaque("flat_map", (a[0], a[1], Opaque("none", ()))))


def array_map(i, fr, st, pc, a, t, fn, r):
    arr, clos = a
    if not isinstance(arr, Arr):
        raise Undecided("array::map on %r" % (arr,))
    work = [(st, pc, [], 0)]
    done = []
    while work:
        s, p, acc, k = work.pop()
        if k == len(arr.elems):
            done.append(Outcome("return", s, p, Arr(acc)))
            continue
        for o in call_closure(i, fr, s, p, clos, [arr.elems[k]]):
            if o.kind != "return":
                done.append(o)
            else:
                work.append((o.state, o.pc, acc + [o.value], k + 1))
    return done


def array_into_iter(i, fr, st, pc, a, t, fn, r):
    arr = a[0]
    if not isinstance(arr, Arr):
        raise Undecided("into_iter of %r" % (arr,))
    return _ret(i, st, pc, Opaque("vals", (tuple(arr.elems), usize(0))))


def _as_iter(v):
    if isinstance(v, Arr):
        return Opaque("vals", (tuple(v.elems), usize(0)))
    return v


_old_multi = iter_next_multi


def iter_next_multi(i, fr, st, pc, it):  # noqa: F811
    k = it.kind if isinstance(it, Opaque) else None
    if k == "vals":
        vals, pos = it.data
        if pos.val >= len(vals):
            return [(st, pc, it, None)], []
        return [(st, pc, Opaque("vals", (vals, usize(pos.val + 1))), vals[pos.val])], []
    if k == "flat_map":
        outer, clos, cur = it.data
        res, others = [], []
        work = [(st, pc, outer, cur)]
        while work:
            s, p, out_it, cur_it = work.pop()
            if not (isinstance(cur_it, Opaque) and cur_it.kind == "none"):
                subs, oth = iter_next_multi(i, fr, s, p, cur_it)
                others.extend(oth)
                for s1, p1, cur2, item in subs:
                    if item is not None:
                        res.append((s1, p1, Opaque("flat_map", (out_it, clos, cur2)), item))
                    else:
                        work.append((s1, p1, out_it, Opaque("none", ())))
                continue
            subs, oth = iter_next_multi(i, fr, s, p, out_it)
            others.extend(oth)
            for s1, p1, out2, item in subs:
                if item is None:
                    res.append((s1, p1, Opaque("flat_map", (out2, clos, Opaque("none", ()))), None))
                    continue
                for o in call_closure(i, fr, s1, p1, clos, [item]):
                    if o.kind != "return":
                        others.append(o)
                    else:
                        work.append((o.state, o.pc, out2, _as_iter(o.value)))
            if len(work) + len(res) > i.max_paths:
                raise Undecided("path budget in flat_map")
        return res, others
    return _old_multi(i, fr, st, pc, it)


def drain(i, fr, st, pc, it, cap=100000):
    """all items of an iterator value -> list of (state, pc, [items]) per path"""
    work = [(st, pc, it, [])]
    done = []
    while work:
        s, p, cur, acc = work.pop()
        subs, others = iter_next_multi(i, fr, s, p, cur)
        if others:
            raise Undecided("panic while draining an iterator")
        for s1, p1, cur2, item in subs:
            if item is None:
                done.append((s1, p1, acc))
            else:
                if len(acc) > cap:
                    raise Undecided("iterator too long")
                work.append((s1, p1, cur2, acc + [item]))
        if len(work) + len(done) > i.max_paths:
            raise Undecided("path budget while draining")
    return done


TABLE.update({
    "std::iter::Iterator::flat_map": it_flat_map,
    "<std::iter::FlatMap<I, U, F> as std::iter::Iterator>::next": multi_next,
    "std::array::<impl [T; N]>::map": array_map,
    "std::array::iter::<impl std::iter::IntoIterator for [T; N]>::into_iter": array_into_iter,
})


# ---------------------------------------------------------------------------------- round-3 breadth
def slice_chunks(exact):
    def f(i, fr, st, pc, a, t, fn, r):
        p, c = a
        if c.val is None or c.val == 0:
            raise Undecided("chunk size")
        n = i.slice_len(st, p)
        start = p.sl[0] if p.sl else 0
        out = []
        k = 0
        while k < n:
            ln = min(c.val, n - k)
            if ln < c.val and exact:
                break
            out.append(Ptr(p.cell, p.path, (start + k, ln), "ref"))
            k += c.val
        return _ret(i, st, pc, Opaque("vals", (tuple(out), usize(0))))
    return f


def seq_lt(op):
    def f(i, fr, st, pc, a, t, fn, r):
        x0, y0 = a[0], a[1]
        for _ in range(2):
            if isinstance(x0, Ptr) and x0.sl is None:
                x0 = i.read_ptr(st, x0)
            if isinstance(y0, Ptr) and y0.sl is None:
                y0 = i.read_ptr(st, y0)
        if isinstance(x0, Agg) and isinstance(y0, Agg) and x0.kind == "adt" and x0.key == y0.key and _local_trait_fn(i, "std::cmp::Ord", "cmp", x0.key) is not None:
            # a local type with its own (derived) order: compare with it, one path per outcome
            res, other = _compare(i, fr, st, pc, x0, y0, t)
            outs = list(other)
            for s2, p2, c in res:
                outs.append(Outcome("return", s2, p2, wbool({"lt": c < 0, "le": c <= 0, "gt": c > 0, "ge": c >= 0}[op])))
            return outs
        la, lb = _seq_values(i, st, a[0]), _seq_values(i, st, a[1])
        if all(isinstance(v, W) and v.val is not None for v in la + lb):
            ka, kb = [v.val for v in la], [v.val for v in lb]
            return _ret(i, st, pc, wbool({"lt": ka < kb, "le": ka <= kb, "gt": ka > kb, "ge": ka >= kb}[op]))
        if not all(isinstance(v, W) for v in la + lb):
            raise Undecided("comparison of non-integer sequences")
        summary = Opaque("lexcmp", (tuple(la), tuple(lb)))
        pol = getattr(i, "cmp_policy", None)
        if pol is not None and op == "lt":
            k = len(i.cmp_log)
            i.cmp_log.append(summary.data)
            return _ret(i, st, pc, wbool(pol(k)))
        return _ret(i, st, pc, wtop(1))
    return f


def rng_gen_any(i, fr, st, pc, a, t, fn, r):
    """Rng::gen::<T>() for unsigned integers and arrays of them: fresh generator bits"""
    args = (r or fn).get("args") or []
    out_ty = None
    for x in args:
        if isinstance(x, dict) and x.get("k") in ("uint", "array"):
            out_ty = x
    if out_ty is None:
        raise Undecided("Rng::gen of an unknown type")

    def fresh(w):
        k = i.rng_calls
        i.rng_calls += 1
        return W(w, bits=[B.atom("rng%d[%d]" % (k, b)) for b in range(w)])
    if out_ty["k"] == "uint":
        return _ret(i, st, pc, fresh(out_ty["w"]))
    ln = out_ty["len"].get("v")
    if out_ty["t"].get("k") != "uint" or ln is None:
        raise Undecided("Rng::gen of %s" % out_ty.get("s"))
    return _ret(i, st, pc, Arr([fresh(out_ty["t"]["w"]) for _ in range(ln)]))


def slice_contains(i, fr, st, pc, a, t, fn, r):  # noqa: F811  (elements of ADT type compare through their PartialEq impl)
    elems = _seq_values(i, st, a[0])
    x = a[1]
    xv = i.read_ptr(st, x) if isinstance(x, Ptr) else x
    acc = wbool(False)
    for e in elems:
        if isinstance(e, W) and isinstance(xv, W):
            eq = w_eq(e, xv)
        elif isinstance(e, Agg) and isinstance(xv, Agg):
            cands = [b for b, sty, tr in i.facts.trait_impl_methods("std::cmp::PartialEq") if sty.get("path") == e.key and b["name"] == "eq"]
            if not cands:
                if not e.fields and not xv.fields:
                    eq = wbool(e.variant == xv.variant and e.key == xv.key)
                else:
                    raise Undecided("contains on %s" % e.key)
            else:
                c1, c2 = new_cell(), new_cell()
                st.mem[c1], st.mem[c2] = e, xv
                if cands[0]["key"] in i.opaque_fns:
                    outs = i.opaque_fns[cands[0]["key"]](i, fr, [Ptr(c1, ()), Ptr(c2, ())], st, pc, t)
                else:
                    outs = i.call_mir(cands[0], cands[0]["mir"], [Ptr(c1, ()), Ptr(c2, ())], st, dict(fr.env), fr.depth + 1, pc)
                if len(outs) != 1 or outs[0].kind != "return":
                    raise Undecided("contains: equality splits")
                eq = outs[0].value
        else:
            raise Undecided("contains on %r" % (e,))
        acc = b_not(b_and(b_not(acc), b_not(eq)))
    return _ret(i, st, pc, acc)


_old_multi2 = iter_next_multi


def iter_next_multi(i, fr, st, pc, it):  # noqa: F811
    k = it.kind if isinstance(it, Opaque) else None
    if k == "chain" and _has_split_adaptor(it):
        a_, b_ = it.data
        res, others = [], []
        if a_ is not None:
            subs, oth = iter_next_multi(i, fr, st, pc, a_)
            others.extend(oth)
            for s1, p1, a2, item in subs:
                if item is not None:
                    res.append((s1, p1, Opaque("chain", (a2, b_)), item))
                else:
                    subs2, oth2 = iter_next_multi(i, fr, s1, p1, _as_iter(b_))
                    others.extend(oth2)
                    for s2, p2, b2, item2 in subs2:
                        res.append((s2, p2, Opaque("chain", (None, b2)), item2))
            return res, others
        subs2, oth2 = iter_next_multi(i, fr, st, pc, _as_iter(b_))
        return [(s2, p2, Opaque("chain", (None, b2)), item2) for s2, p2, b2, item2 in subs2], oth2
    if k == "copied" and _has_split_adaptor(it):
        subs, others = iter_next_multi(i, fr, st, pc, it.data[0])
        res = []
        for s1, p1, it2, item in subs:
            if item is not None and isinstance(item, Ptr):
                item = i.read_ptr(s1, item)
            res.append((s1, p1, Opaque("copied", (it2,)), item))
        return res, others
    return _old_multi2(i, fr, st, pc, it)


_old_iter_next3 = iter_next


def iter_next(interp, st, it, back=False):  # noqa: F811
    if isinstance(it, Opaque) and it.kind == "vals":
        vals, pos = it.data
        if pos.val >= len(vals):
            return it, None
        if back:     # the remaining items are vals[pos..]: hand out the last one
            return Opaque("vals", (tuple(vals[:-1]), pos)), vals[-1]
        return Opaque("vals", (vals, usize(pos.val + 1))), vals[pos.val]
    if isinstance(it, Arr):
        return iter_next(interp, st, Opaque("vals", (tuple(it.elems), usize(0))), back)
    return _old_iter_next3(interp, st, it, back)


def vec_extend(i, fr, st, pc, a, t, fn, r):  # noqa: F811
    h = i.read_ptr(st, a[0])
    if not isinstance(h, Ptr):
        raise Undecided("extend on %r" % (h,))
    src = a[1]
    if isinstance(src, Ptr):
        tgt = i.read_ptr(st, src) if src.sl is None else src
        if not isinstance(tgt, Ptr):
            raise Undecided("extend from %r" % (tgt,))
        _vec_set(i, st, a[0], list(i.slice_elems(st, h)) + list(i.slice_elems(st, tgt)))
        return _ret(i, st, pc, UNIT)
    outs = []
    for s1, p1, items in drain(i, fr, st, pc, _as_iter(src)):
        items = [load_items(i, s1, x) for x in items]
        h1 = i.read_ptr(s1, a[0])
        _vec_set(i, s1, a[0], list(i.slice_elems(s1, h1)) + items)
        outs.append(Outcome("return", s1, p1, UNIT))
    return outs


def it_sum_multi(i, fr, st, pc, a, t, fn, r):
    from .absint import w_add
    outs = []
    for s1, p1, items in drain(i, fr, st, pc, _as_iter(a[0])):
        acc = None
        for x in items:
            x = load_items(i, s1, x)
            if not isinstance(x, W):
                raise Undecided("sum of non-integers")
            if acc is None:
                acc = x
                continue
            if acc.val is not None and x.val is not None and not acc.signed:
                # Sum for integers inherits the crate's overflow checks: panic in checked builds, wrap otherwise
                tot = acc.val + x.val
                if tot >> acc.width and getattr(i.facts, "cfg", "dbg") != "rel":
                    outs += i.panic(s1, p1, "attempt to add with overflow", fr, t)
                    acc = "panicked"
                    break
                acc = W(acc.width, val=tot & ((1 << acc.width) - 1), signed=acc.signed)
            else:
                acc = w_add(acc, x)[0]
        if acc == "panicked":
            continue
        if acc is None:
            out_ty = ((r or fn).get("args") or [None])[-1]
            w = out_ty.get("w", 64) if isinstance(out_ty, dict) else 64
            acc = wconst(w, 0)
        outs.append(Outcome("return", s1, p1, acc))
    return outs


TABLE.update({
    "core::slice::<impl [T]>::chunks_exact_mut": slice_chunks(True),
    "core::slice::<impl [T]>::chunks_exact": slice_chunks(True),
    "core::slice::<impl [T]>::chunks_mut": slice_chunks(False),
    "core::slice::<impl [T]>::chunks": slice_chunks(False),
    "<std::slice::ChunksExactMut<'a, T> as std::iter::Iterator>::next": multi_next,
    "<std::slice::ChunksExact<'a, T> as std::iter::Iterator>::next": multi_next,
    "<std::slice::ChunksMut<'a, T> as std::iter::Iterator>::next": multi_next,
    "<std::slice::Chunks<'a, T> as std::iter::Iterator>::next": multi_next,
    "<std::array::IntoIter<T, N> as std::iter::Iterator>::next": multi_next,
    "core::slice::cmp::<impl std::cmp::PartialOrd for [T]>::lt": seq_lt("lt"),
    "core::slice::cmp::<impl std::cmp::PartialOrd for [T]>::le": seq_lt("le"),
    "core::slice::cmp::<impl std::cmp::PartialOrd for [T]>::gt": seq_lt("gt"),
    "core::slice::cmp::<impl std::cmp::PartialOrd for [T]>::ge": seq_lt("ge"),
    "std::cmp::PartialOrd::lt": seq_lt("lt"),
    "std::cmp::PartialOrd::le": seq_lt("le"),
    "std::cmp::PartialOrd::gt": seq_lt("gt"),
    "std::cmp::PartialOrd::ge": seq_lt("ge"),
    "rand::Rng::gen": rng_gen_any,
    "core::slice::<impl [T]>::contains": slice_contains,
    "<std::vec::Vec<T, A> as std::iter::Extend<&'a T>>::extend": vec_extend,
    "<std::vec::Vec<T, A> as std::iter::Extend<T>>::extend": vec_extend,
    "std::iter::Iterator::sum": it_sum_multi,
})
for _k in list(TABLE):
    if TABLE[_k] is generic_next:
        TABLE[_k] = multi_next


# ---------------------------------------------------------------------------------- corrections after refactor selftest
def generic_all_any(i, fr, st, pc, a, t, fn, r):
    """Iterator::all / any on any modelled iterator: conjunction / disjunction of the closure results
    (strings: an unknown predicate of the text)"""
    src = a[0]
    itv = i.read_ptr(st, src) if isinstance(src, Ptr) else src
    if isinstance(itv, Opaque) and itv.kind == "str_iter":
        return str_iter_pred(i, fr, st, pc, a, t, fn, r)
    is_any = fn["name"] == "any"
    clos = a[1]
    outs = []
    work = [(st, pc, itv, wbool(not is_any))]
    while work:
        s, p, cur, acc = work.pop()
        # short-circuit on a decided accumulator, like the real adaptor
        if isinstance(acc, W) and acc.val is not None and bool(acc.val) == is_any:
            if isinstance(src, Ptr):
                i.write_ptr(s, src, cur)
            outs.append(Outcome("return", s, p, acc))
            continue
        subs, others = iter_next_multi(i, fr, s, p, cur)
        outs.extend(others)
        for s1, p1, cur2, item in subs:
            if item is None:
                if isinstance(src, Ptr):
                    i.write_ptr(s1, src, cur2)
                outs.append(Outcome("return", s1, p1, acc))
                continue
            for o in call_closure(i, fr, s1, p1, clos, [item]):
                if o.kind != "return":
                    outs.append(o)
                    continue
                v = o.value
                if isinstance(v, W) and v.val is not None:
                    acc2 = b_and(acc, v) if not is_any else b_not(b_and(b_not(acc), b_not(v)))
                    work.append((o.state, o.pc, cur2, acc2))
                else:
                    # the real adaptor stops at the first deciding element: one path per decision
                    s2 = o.state.fork()
                    stop_cond = b_not(v) if not is_any else v
                    if isinstance(src, Ptr):
                        i.write_ptr(s2, src, cur2)
                    if _feasible(i, o.pc + (stop_cond,)):
                        outs.append(Outcome("return", s2, o.pc + (stop_cond,), wbool(is_any)))
                    if _feasible(i, o.pc + (b_not(stop_cond),)):
                        work.append((o.state, o.pc + (b_not(stop_cond),), cur2, acc))
        if len(work) + len(outs) > i.max_paths:
            raise Undecided("path budget in all/any")
    return outs


def it_collect_typed(i, fr, st, pc, a, t, fn, r):
    """collect(): into a Vec by default, into a String when the target type says so"""
    args = (r or fn).get("args") or []
    into_string = any(isinstance(x, dict) and x.get("k") == "adt" and x.get("path") == "std::string::String" for x in args[-1:])
    outs = it_collect(i, fr, st, pc, a, t, fn, r)
    if not into_string:
        return outs
    res = []
    for o in outs:
        if o.kind != "return":
            res.append(o)
            continue
        toks = ()
        for e in i.slice_elems(o.state, o.value):
            toks += string_tokens(i, o.state, e)
        res.append(Outcome("return", o.state, o.pc, Opaque("string", (toks,))))
    return res


def string_write_fmt(i, fr, st, pc, a, t, fn, r):
    sp, fa = a
    s = i.read_ptr(st, sp)
    if not (isinstance(s, Opaque) and s.kind == "string"):
        raise Undecided("write_fmt on %r" % (s,))
    i.write_ptr(st, sp, Opaque("string", (s.data[0] + render(fa.data[0], fa.data[1]),)))
    return _ret(i, st, pc, Agg("adt", RESULT, 0, (UNIT,)))


def string_write_str(i, fr, st, pc, a, t, fn, r):
    s = i.read_ptr(st, a[0])
    i.write_ptr(st, a[0], Opaque("string", (s.data[0] + string_tokens(i, st, a[1]),)))
    return _ret(i, st, pc, Agg("adt", RESULT, 0, (UNIT,)))


def string_from(i, fr, st, pc, a, t, fn, r):
    return _ret(i, st, pc, Opaque("string", (string_tokens(i, st, a[0]),)))


TABLE.update({
    "std::iter::Iterator::all": generic_all_any,
    "std::iter::Iterator::any": generic_all_any,
    "std::iter::Iterator::collect": it_collect_typed,
    "std::fmt::Write::write_fmt": string_write_fmt,
    "std::string::String::with_capacity": string_new,       # the capacity is not observable
    "std::string::String::reserve": lambda i, fr, st, pc, a, t, fn, r: _ret(i, st, pc, Agg("tuple", None, 0, [])),
    "<std::string::String as std::fmt::Write>::write_str": string_write_str,
    "<std::string::String as std::fmt::Write>::write_fmt": string_write_fmt,
    "<std::string::String as std::convert::From<&str>>::from": string_from,
    "std::string::String::push": string_write_str,
    "std::option::Option::<T>::unwrap": option_unwrap,
    "std::result::Result::<T, E>::expect": result_unwrap,
})


# ---------------------------------------------------------------------------------- generic consumers
def _drive(i, fr, st, pc, src, init, step, finish):
    """run a modelled iterator to exhaustion (or an early stop).  step(state, pc, acc, item) -> list of
    (state, pc, acc', stop?) ; finish(state, pc, acc) -> value.  The iterator behind a &mut reference is written back."""
    itv = i.read_ptr(st, src) if isinstance(src, Ptr) else src
    outs = []
    work = [(st, pc, itv, init)]
    while work:
        s, p, cur, acc = work.pop()
        subs, others = iter_next_multi(i, fr, s, p, cur)
        outs.extend(others)
        for s1, p1, cur2, item in subs:
            if item is None:
                if isinstance(src, Ptr):
                    i.write_ptr(s1, src, cur2)
                outs.append(Outcome("return", s1, p1, finish(s1, p1, acc)))
                continue
            for s2, p2, acc2, stop in step(s1, p1, acc, item):
                if stop:
                    if isinstance(src, Ptr):
                        i.write_ptr(s2, src, cur2)
                    outs.append(Outcome("return", s2, p2, finish(s2, p2, acc2)))
                else:
                    work.append((s2, p2, cur2, acc2))
        if len(work) + len(outs) > i.max_paths:
            raise Undecided("path budget in an iterator consumer")
    return outs


def it_fold(i, fr, st, pc, a, t, fn, r):
    src, init, clos = a
    other = []

    def step(s, p, acc, item):
        res = []
        for o in call_closure(i, fr, s, p, clos, [acc, item]):
            if o.kind != "return":
                other.append(o)
            else:
                res.append((o.state, o.pc, o.value, False))
        return res
    return _drive(i, fr, st, pc, src, init, step, lambda s, p, acc: acc) + other


def it_for_each(i, fr, st, pc, a, t, fn, r):
    src, clos = a
    other = []

    def step(s, p, acc, item):
        res = []
        for o in call_closure(i, fr, s, p, clos, [item]):
            if o.kind != "return":
                other.append(o)
            else:
                res.append((o.state, o.pc, acc, False))
        return res
    return _drive(i, fr, st, pc, src, UNIT, step, lambda s, p, acc: UNIT) + other


def it_search(kind):
    """position / find / find_map / last / take the first element satisfying the closure"""
    def f(i, fr, st, pc, a, t, fn, r):
        src = a[0]
        clos = a[1] if len(a) > 1 else None
        other = []

        def step(s, p, acc, item):
            if kind == "last":
                return [(s, p, (acc[0] + 1, some(item)), False)]
            arg = item
            if kind == "find":
                c = new_cell()
                s.mem[c] = item
                arg = Ptr(c, ())
            res = []
            for o in call_closure(i, fr, s, p, clos, [arg]):
                if o.kind != "return":
                    other.append(o)
                    continue
                v = o.value
                if kind == "find_map":
                    if not isinstance(v, Agg):
                        raise Undecided("find_map closure result %r" % (v,))
                    res.append((o.state, o.pc, (acc[0] + 1, v), v.variant == 1))
                    continue
                hit = some(usize(acc[0])) if kind == "position" else some(item)
                if isinstance(v, W) and v.val is not None:
                    res.append((o.state, o.pc, (acc[0] + 1, hit if v.val else NONE), bool(v.val)))
                else:
                    s2 = o.state.fork()
                    if _feasible(i, o.pc + (v,)):
                        res.append((o.state, o.pc + (v,), (acc[0] + 1, hit), True))
                    if _feasible(i, o.pc + (b_not(v),)):
                        res.append((s2, o.pc + (b_not(v),), (acc[0] + 1, NONE), False))
            return res
        return _drive(i, fr, st, pc, src, (0, NONE), step, lambda s, p, acc: acc[1]) + other
    return f


TABLE.update({
    "std::iter::Iterator::fold": it_fold,
    "std::iter::Iterator::for_each": it_for_each,
    "std::iter::Iterator::position": it_search("position"),
    "std::iter::Iterator::find": it_search("find"),
    "std::iter::Iterator::find_map": it_search("find_map"),
    "std::iter::Iterator::last": it_search("last"),
})

import re as _re_mod
_ITER_IMPL_RE = _re_mod.compile(r"^<.* as (?:std|core)::iter::(Iterator|DoubleEndedIterator)>::(\w+)$")


def _iter_generic_dispatch(path):
    """a consumer specialised by an adaptor (e.g. <Filter<I,P> as Iterator>::fold) behaves like the provided method"""
    m = _ITER_IMPL_RE.match(path)
    if not m or m.group(2) in ("next", "next_back"):
        return None
    return TABLE.get("std::iter::%s::%s" % (m.group(1), m.group(2)))


def ordering_then(i, fr, st, pc, a, t, fn, r):
    """Ordering::then / then_with: lexicographic composition (the second comparison is pure here)"""
    first = a[0]
    if fn["name"] == "then_with":
        outs = call_closure(i, fr, st, pc, a[1], [])
        if len(outs) != 1 or outs[0].kind != "return":
            # only reached when the first is Equal: evaluate lazily on a concrete first, otherwise give up
            if isinstance(first, Agg) and first.variant != 1:
                return _ret(i, st, pc, first)
            if isinstance(first, Agg):
                return outs
            raise Undecided("then_with with a splitting closure")
        st, pc, second = outs[0].state, outs[0].pc, outs[0].value
    else:
        second = a[1]
    if isinstance(first, Agg):
        return _ret(i, st, pc, second if first.variant == 1 else first)
    if isinstance(first, Opaque) and first.kind == "lexcmp":
        if isinstance(second, Opaque) and second.kind == "lexcmp":
            return _ret(i, st, pc, Opaque("lexcmp", (tuple(first.data[0]) + tuple(second.data[0]), tuple(first.data[1]) + tuple(second.data[1]))))
        if isinstance(second, Agg) and second.variant == 1:
            return _ret(i, st, pc, first)
    raise Undecided("Ordering::then of %r and %r" % (first, second))


def bool_then(i, fr, st, pc, a, t, fn, r):
    """bool::then(f) / then_some(v)"""
    c = a[0]
    lazy = fn["name"] == "then"
    if isinstance(c, W) and c.val is not None:
        if not c.val:
            return _ret(i, st, pc, NONE)
        if not lazy:
            return _ret(i, st, pc, some(a[1]))
        res = []
        for o in call_closure(i, fr, st, pc, a[1], []):
            res.append(Outcome("return", o.state, o.pc, some(o.value)) if o.kind == "return" else o)
        return res
    s2 = st.fork()
    res = [Outcome("return", s2, pc + (b_not(c),), NONE)]
    if not lazy:
        res.append(Outcome("return", st, pc + (c,), some(a[1])))
        return res
    for o in call_closure(i, fr, st, pc + (c,), a[1], []):
        res.append(Outcome("return", o.state, o.pc, some(o.value)) if o.kind == "return" else o)
    return res


TABLE.update({
    "std::cmp::Ordering::then_with": ordering_then,
    "std::cmp::Ordering::then": ordering_then,
    "std::primitive::bool::then": bool_then,
    "std::primitive::bool::then_some": bool_then,
    "core::bool::<impl bool>::then": bool_then,
    "core::bool::<impl bool>::then_some": bool_then,
    "std::bool::<impl bool>::then": bool_then,
    "std::bool::<impl bool>::then_some": bool_then,
})


# ---------------------------------------------------------------------------------- idioms met in refactors
def _into_iter_view(i, st, v):
    """IntoIterator applied inside an adaptor (zip(slice), chain(vec), for x in &vec): a slice / Vec handle iterates
    over references to its elements"""
    if isinstance(v, Ptr) and v.sl is None:
        inner = i.read_ptr(st, v)
        if isinstance(inner, Ptr) and inner.sl is not None:
            v = inner
        elif isinstance(inner, Arr):
            return Opaque("slice_iter", (Ptr(v.cell, v.path, (0, len(inner.elems)), "ref"), usize(0), usize(len(inner.elems)), wbool(False)))
    if isinstance(v, Ptr) and v.sl is not None:
        return mk_slice_iter(i, st, v, False)
    return v


_old_iter_next9 = iter_next


def iter_next(interp, st, it, back=False):  # noqa: F811
    if isinstance(it, Ptr):
        it2 = _into_iter_view(interp, st, it)
        if it2 is not it:
            return _old_iter_next9(interp, st, it2, back)
    if isinstance(it, Opaque) and it.kind in ("zip", "chain") and any(isinstance(x, Ptr) for x in it.data):
        it = Opaque(it.kind, tuple(_into_iter_view(interp, st, x) if isinstance(x, Ptr) else x for x in it.data))
    return _old_iter_next9(interp, st, it, back)


def from_bool(i, fr, st, pc, a, t, fn, r):
    x = a[0]
    w = (r or fn)["args"][0].get("w", 64) if (r or fn).get("args") else 64
    if x.val is not None:
        return _ret(i, st, pc, wconst(w, x.val))
    return _ret(i, st, pc, W(w, bits=[x.bits[0]] + [ZERO] * (w - 1)))


def mem_take(i, fr, st, pc, a, t, fn, r):
    """mem::take(&mut x): hands out x and leaves Default::default() (integers 0, bool false, empty slice / Vec)"""
    x = i.read_ptr(st, a[0])
    if isinstance(x, W):
        d = W(x.width, val=0, signed=x.signed)
    elif isinstance(x, Ptr) and x.sl is not None:
        if x.kind == "vec":
            cell = new_cell()
            st.mem[cell] = Arr([])
            d = Ptr(cell, (), (0, 0), "vec")
        else:
            d = Ptr(x.cell, x.path, (x.sl[0], 0), x.kind)
    else:
        raise Undecided("mem::take of %r" % (x,))
    i.write_ptr(st, a[0], d)
    return _ret(i, st, pc, x)


def slice_split_end(i, fr, st, pc, a, t, fn, r):
    """split_first / split_last (and _mut): Option<(&T, &[T])>"""
    p = a[0]
    if isinstance(p, Ptr) and p.sl is None:
        inner = i.read_ptr(st, p)
        if isinstance(inner, Ptr):
            p = inner
    n = i.slice_len(st, p)
    if n == 0:
        return _ret(i, st, pc, NONE)
    lo = p.sl[0]
    if "first" in fn["name"]:
        one, rest = i.elem_ptr(p, 0), Ptr(p.cell, p.path, (lo + 1, n - 1), "ref")
    else:
        one, rest = i.elem_ptr(p, n - 1), Ptr(p.cell, p.path, (lo, n - 1), "ref")
    return _ret(i, st, pc, some(Agg("tuple", None, 0, (one, rest))))


def slice_windows(i, fr, st, pc, a, t, fn, r):
    p, k = a
    if k.val is None:
        raise Undecided("symbolic window size")
    if k.val == 0:
        return i.panic(st, pc, "window size must be non-zero", fr, t)
    n = i.slice_len(st, p)
    lo = p.sl[0]
    vals = [Ptr(p.cell, p.path, (lo + j, k.val), "ref") for j in range(0, max(0, n - k.val + 1))]
    return _ret(i, st, pc, Opaque("vals", (tuple(vals), usize(0))))


def slice_concat(i, fr, st, pc, a, t, fn, r):
    """[V].concat() for slices / Vecs of Copy elements"""
    outer = a[0]
    out = []
    for e in i.slice_elems(st, outer):
        if isinstance(e, Ptr) and e.sl is None:
            e = i.read_ptr(st, e)
        if isinstance(e, Arr):
            out += list(e.elems)
        elif isinstance(e, Ptr) and e.sl is not None:
            out += list(i.slice_elems(st, e))
        else:
            raise Undecided("concat of %r" % (e,))
    cell = new_cell()
    st.mem[cell] = Arr(out)
    return _ret(i, st, pc, Ptr(cell, (), (0, len(out)), "vec"))


def it_zip2(i, fr, st, pc, a, t, fn, r):
    return _ret(i, st, pc, Opaque("zip", (_into_iter_view(i, st, a[0]), _into_iter_view(i, st, a[1]))))


def it_chain2(i, fr, st, pc, a, t, fn, r):
    return _ret(i, st, pc, Opaque("chain", (_into_iter_view(i, st, a[0]), _into_iter_view(i, st, a[1]))))


TABLE.update({
    "std::iter::Iterator::zip": it_zip2,
    "std::iter::Iterator::chain": it_chain2,
    "std::mem::take": mem_take,
    "core::slice::<impl [T]>::split_first": slice_split_end,
    "core::slice::<impl [T]>::split_last": slice_split_end,
    "core::slice::<impl [T]>::split_first_mut": slice_split_end,
    "core::slice::<impl [T]>::split_last_mut": slice_split_end,
    "std::slice::<impl [T]>::split_first": slice_split_end,
    "std::slice::<impl [T]>::split_last": slice_split_end,
    "core::slice::<impl [T]>::windows": slice_windows,
    "std::slice::<impl [T]>::concat": slice_concat,
})
for _w in (8, 16, 32, 64, 128):
    TABLE["std::convert::num::<impl std::convert::From<bool> for u%d>::from" % _w] = from_bool
    TABLE["std::convert::num::<impl std::convert::From<bool> for i%d>::from" % _w] = from_bool
TABLE["std::convert::num::<impl std::convert::From<bool> for usize>::from"] = from_bool


def ref_ord(i, fr, st, pc, a, t, fn, r):
    """&A < &B etc.: the comparison of the referents (integers here)"""
    x, y = a
    for _ in range(3):
        if isinstance(x, Ptr) and x.sl is None:
            x = i.read_ptr(st, x)
        if isinstance(y, Ptr) and y.sl is None:
            y = i.read_ptr(st, y)
    if isinstance(x, W) and isinstance(y, W):
        op = {"lt": "Lt", "le": "Le", "gt": "Gt", "ge": "Ge"}[fn["name"]]
        return _ret(i, st, pc, i.binop(op, x, y, fr))
    raise Undecided("order of %r and %r" % (x, y))


def slice_split_at(i, fr, st, pc, a, t, fn, r):
    p, k = a
    if isinstance(p, Ptr) and p.sl is None:
        inner = i.read_ptr(st, p)
        if isinstance(inner, Ptr):
            p = inner
    if k.val is None:
        raise Undecided("symbolic split point")
    n = i.slice_len(st, p)
    if k.val > n:
        return i.panic(st, pc, "mid > len", fr, t)
    lo = p.sl[0]
    return _ret(i, st, pc, Agg("tuple", None, 0, (Ptr(p.cell, p.path, (lo, k.val), "ref"), Ptr(p.cell, p.path, (lo + k.val, n - k.val), "ref"))))


TABLE.update({
    "std::cmp::impls::<impl std::cmp::PartialOrd<&B> for &A>::lt": ref_ord,
    "std::cmp::impls::<impl std::cmp::PartialOrd<&B> for &A>::le": ref_ord,
    "std::cmp::impls::<impl std::cmp::PartialOrd<&B> for &A>::gt": ref_ord,
    "std::cmp::impls::<impl std::cmp::PartialOrd<&B> for &A>::ge": ref_ord,
    "core::slice::<impl [T]>::split_at": slice_split_at,
    "core::slice::<impl [T]>::split_at_mut": slice_split_at,
    "<std::slice::Windows<'a, T> as std::iter::Iterator>::next": multi_next,
})


def it_count_multi(i, fr, st, pc, a, t, fn, r):
    """count() on any modelled iterator (filters fork per element)"""
    return _drive(i, fr, st, pc, a[0], 0, lambda s, p, acc, item: [(s, p, acc + 1, False)], lambda s, p, acc: usize(acc))


TABLE["std::iter::Iterator::count"] = it_count_multi


# ---------------------------------------------------------------------------------- round-5 idioms
def try_into_array(i, fr, st, pc, a, t, fn, r):
    """<&[T] as TryInto<[T; N]>>::try_into / TryFrom<&[T]> for [T; N]: Ok(copy) iff the lengths agree"""
    info = r or fn
    tys = [x for x in (info.get("args") or []) if isinstance(x, dict)]
    arr = [x for x in tys if x.get("k") == "array"]
    src = a[0]
    if not arr or not (isinstance(src, Ptr) and src.sl is not None):
        raise Undecided("try_into of %r" % (src,))
    n = arr[0].get("len")
    if isinstance(n, dict):
        n = fr.env.get(n.get("name")) if n.get("k") == "param" else n.get("val", n.get("v"))
    if not isinstance(n, int):
        raise Undecided("array length of try_into not known")
    elems = list(i.slice_elems(st, src))
    if len(elems) != n:
        return _ret(i, st, pc, Agg("adt", RESULT, 1, (Opaque("TryFromSliceError", ()),)))
    vals = [i.read_ptr(st, e) if isinstance(e, Ptr) and e.sl is None else e for e in elems]
    return _ret(i, st, pc, Agg("adt", RESULT, 0, (Arr(vals),)))


def rng_fill(i, fr, st, pc, a, t, fn, r):
    """Rng::fill / try_fill on an integer slice: one fresh draw per element"""
    dest = a[1]
    if isinstance(dest, Ptr) and dest.sl is None:
        inner = i.read_ptr(st, dest)
        if isinstance(inner, Ptr):
            dest = inner
    if not (isinstance(dest, Ptr) and dest.sl is not None):
        raise Undecided("fill of %r" % (dest,))
    src = i.read_ptr(st, a[0]) if isinstance(a[0], Ptr) else a[0]
    if not (isinstance(src, Opaque) and src.kind == "thread_rng"):
        raise Undecided("fill from %r" % (src,))
    new = []
    for e in i.slice_elems(st, dest):
        cur = i.read_ptr(st, e) if isinstance(e, Ptr) else e
        if not isinstance(cur, W):
            raise Undecided("fill of non-integer elements")
        k = i.rng_calls
        i.rng_calls += 1
        new.append(W(cur.width, bits=[B.atom("rng%d[%d]" % (k, b)) for b in range(cur.width)]))
    i.write_slice(st, dest, new)
    if fn["name"] == "try_fill":
        return _ret(i, st, pc, Agg("adt", RESULT, 0, (UNIT,)))
    return _ret(i, st, pc, UNIT)


def result_is(i, fr, st, pc, a, t, fn, r):
    v = i.read_ptr(st, a[0]) if isinstance(a[0], Ptr) else a[0]
    if not isinstance(v, Agg):
        raise Undecided("is_ok on %r" % (v,))
    return _ret(i, st, pc, wbool((v.variant == 0) == (fn["name"] == "is_ok")))


def it_peekable(i, fr, st, pc, a, t, fn, r):
    return _ret(i, st, pc, Opaque("peekable", (a[0], None)))


def _peek_fill(i, fr, st, pc, itp):
    """make sure the look-ahead slot is filled: -> list of (state, pc, inner', slot) where slot is ('some', item) / ('none',)"""
    pk = i.read_ptr(st, itp) if isinstance(itp, Ptr) else itp
    if not (isinstance(pk, Opaque) and pk.kind == "peekable"):
        raise Undecided("peek on %r" % (pk,))
    inner, slot = pk.data
    if slot is not None:
        return [(st, pc, inner, slot)], []
    subs, others = iter_next_multi(i, fr, st, pc, inner)
    return [(s1, p1, it2, ("none",) if item is None else ("some", item)) for s1, p1, it2, item in subs], others


def peekable_next(i, fr, st, pc, a, t, fn, r):
    outs = []
    subs, others = _peek_fill(i, fr, st, pc, a[0])
    outs += others
    for s1, p1, inner, slot in subs:
        i.write_ptr(s1, a[0], Opaque("peekable", (inner, None if slot[0] == "some" else slot)))
        outs.append(Outcome("return", s1, p1, some(slot[1]) if slot[0] == "some" else NONE))
    return outs


def peekable_peek(i, fr, st, pc, a, t, fn, r):
    outs = []
    subs, others = _peek_fill(i, fr, st, pc, a[0])
    outs += others
    for s1, p1, inner, slot in subs:
        i.write_ptr(s1, a[0], Opaque("peekable", (inner, slot)))
        if slot[0] == "none":
            outs.append(Outcome("return", s1, p1, NONE))
        else:
            c = new_cell()
            s1.mem[c] = slot[1]
            outs.append(Outcome("return", s1, p1, some(Ptr(c, ()))))
    return outs


def peekable_next_if(i, fr, st, pc, a, t, fn, r):
    """next_if(f): yields the next item only when f(&item) holds, else leaves it in the look-ahead slot"""
    outs = []
    subs, others = _peek_fill(i, fr, st, pc, a[0])
    outs += others
    for s1, p1, inner, slot in subs:
        if slot[0] == "none":
            i.write_ptr(s1, a[0], Opaque("peekable", (inner, slot)))
            outs.append(Outcome("return", s1, p1, NONE))
            continue
        c = new_cell()
        s1.mem[c] = slot[1]
        for o in call_closure(i, fr, s1, p1, a[1], [Ptr(c, ())]):
            if o.kind != "return":
                outs.append(o)
                continue
            for s2, p2, val in _split_bool(i, o.state, o.pc, o.value):
                if val:
                    i.write_ptr(s2, a[0], Opaque("peekable", (inner, None)))
                    outs.append(Outcome("return", s2, p2, some(slot[1])))
                else:
                    i.write_ptr(s2, a[0], Opaque("peekable", (inner, slot)))
                    outs.append(Outcome("return", s2, p2, NONE))
    return outs


_old_iter_next_multi_pk = iter_next_multi


def iter_next_multi(i, fr, st, pc, it):  # noqa: F811
    if isinstance(it, Opaque) and it.kind == "peekable":
        inner, slot = it.data
        if slot is not None:
            return [(st, pc, Opaque("peekable", (inner, None if slot[0] == "some" else slot)), slot[1] if slot[0] == "some" else None)], []
        subs, others = _old_iter_next_multi_pk(i, fr, st, pc, inner)
        return [(s1, p1, Opaque("peekable", (it2, None if item is not None else ("none",))), item) for s1, p1, it2, item in subs], others
    return _old_iter_next_multi_pk(i, fr, st, pc, it)


TABLE.update({
    "<T as std::convert::TryInto<U>>::try_into": try_into_array,
    "std::array::<impl std::convert::TryFrom<&'a [T]> for [T; N]>::try_from": try_into_array,
    "std::array::<impl std::convert::TryFrom<&[T]> for [T; N]>::try_from": try_into_array,
    "rand::Rng::try_fill": rng_fill,
    "rand::Rng::fill": rng_fill,
    "std::result::Result::<T, E>::is_ok": result_is,
    "std::result::Result::<T, E>::is_err": result_is,
    "std::iter::Iterator::peekable": it_peekable,
    "<std::iter::Peekable<I> as std::iter::Iterator>::next": peekable_next,
    "std::iter::Peekable::<I>::peek": peekable_peek,
    "std::iter::Peekable::<I>::next_if": peekable_next_if,
})


# ---------------------------------------------------------------------------------- byte strings
# Opaque("bstr", (tuple of W(8) bytes,)): a &str whose bytes are known words - mostly concrete, a few symbolic ones
# (bit 7 constant 0: single-byte characters).  Used by the byte-window rule of C09 (window mode: bit functions of the
# symbolic bytes are exact).  Every str summary first looks for this representation.
def _bstr(v):
    return isinstance(v, Opaque) and v.kind == "bstr"


def _b_or(x, y):
    return b_not(b_and(b_not(x), b_not(y)))


def _in_range(i, fr, b, lo, hi):
    return b_and(i.binop("Ge", b, wconst(b.width, lo), fr), i.binop("Le", b, wconst(b.width, hi), fr))


def _is_hexdigit(i, fr, b):
    return _b_or(_in_range(i, fr, b, 48, 57), _b_or(_in_range(i, fr, b, 97, 102), _in_range(i, fr, b, 65, 70)))


def _digit_value(i, fr, b, radix=16):
    """(valid bit-value, 8-bit word holding the digit value when valid)"""
    from .absint import w_sub
    dec, low, up = _in_range(i, fr, b, 48, 57), _in_range(i, fr, b, 97, 102), _in_range(i, fr, b, 65, 70)
    if radix != 16:
        raise Undecided("digit value in radix %s" % radix)
    vd = w_sub(b, wconst(b.width, 48))[0]
    vl = w_sub(b, wconst(b.width, 87))[0]
    vu = w_sub(b, wconst(b.width, 55))[0]
    bits = []
    for k in range(b.width):
        def bit(w_):
            return w_.bit(k) if hasattr(w_, "bit") else w_.all_bits()[k]
        acc = B.bor(B.band(_bit_of(dec), bit(vd)), B.bor(B.band(_bit_of(low), bit(vl)), B.band(_bit_of(up), bit(vu))))
        bits.append(acc)
    valid = _b_or(dec, _b_or(low, up))
    return valid, W(b.width, bits=bits)


def _bit_of(c):
    if isinstance(c, W):
        return (ONE if c.val else ZERO) if c.val is not None else c.bits[0]
    raise Undecided("condition %r is not a bit" % (c,))


def u8_class(kind):
    def f(i, fr, st, pc, a, t, fn, r):
        b = i.read_ptr(st, a[0]) if isinstance(a[0], Ptr) else a[0]
        if not isinstance(b, W):
            raise Undecided("%s on %r" % (kind, b))
        if kind == "hexdigit":
            return _ret(i, st, pc, _is_hexdigit(i, fr, b))
        if kind == "digit":
            return _ret(i, st, pc, _in_range(i, fr, b, 48, 57))
        if kind == "upper":
            return _ret(i, st, pc, _in_range(i, fr, b, 65, 90))
        if kind == "lower":
            return _ret(i, st, pc, _in_range(i, fr, b, 97, 122))
        if kind == "ascii":
            return _ret(i, st, pc, i.binop("Le", b, wconst(b.width, 127), fr))
        raise Undecided(kind)
    return f


def char_to_digit(i, fr, st, pc, a, t, fn, r):
    """char::to_digit(radix) / is_digit(radix) for radix 16 on a symbolic ASCII char"""
    c, radix = a[0], a[1]
    if isinstance(c, Ptr):
        c = i.read_ptr(st, c)
    if radix.val != 16 or not isinstance(c, W):
        raise Undecided("to_digit shape")
    valid, val = _digit_value(i, fr, c)
    if fn["name"] == "is_digit":
        return _ret(i, st, pc, valid)
    val32 = W(32, bits=(val.all_bits() + [ZERO] * 32)[:32])
    outs = []
    for s2, p2, ok in _split_bool(i, st, pc, valid):
        outs.append(Outcome("return", s2, p2, some(val32) if ok else NONE))
    return outs


def bstr_dispatch(old, new):
    def f(i, fr, st, pc, a, t, fn, r):
        s0 = a[0]
        if isinstance(s0, Ptr) and s0.sl is None:
            inner = i.read_ptr(st, s0)
            if _bstr(inner):
                s0 = inner
        if _bstr(s0):
            return new(i, fr, st, pc, [s0] + list(a[1:]), t, fn, r)
        return old(i, fr, st, pc, a, t, fn, r)
    return f


def bstr_is_ascii(i, fr, st, pc, a, t, fn, r):
    acc = wbool(True)
    for b in a[0].data[0]:
        acc = b_and(acc, b_not(W(1, bits=[b.all_bits()[7]])) if b.val is None else wbool(b.val < 128))
    return _ret(i, st, pc, acc)


def bstr_len(i, fr, st, pc, a, t, fn, r):
    return _ret(i, st, pc, usize(len(a[0].data[0])))


def bstr_index(i, fr, st, pc, a, t, fn, r):
    s, rg = a
    bs = s.data[0]
    if not isinstance(rg, Agg):
        raise Undecided("str index %r" % (rg,))
    fields = list(rg.fields)
    nm = (rg.key or "")
    lo, hi = 0, len(bs)
    if "RangeFrom" in nm:
        lo = fields[0].val
    elif "RangeTo" in nm:
        hi = fields[0].val
    elif "RangeFull" in nm:
        pass
    else:
        lo, hi = fields[0].val, fields[1].val
    if lo is None or hi is None:
        raise Undecided("symbolic str range")
    if lo > hi or hi > len(bs):
        return i.panic(st, pc, "str index out of range", fr, t)
    if any(b.val is None and b.all_bits()[7] != ZERO or (b.val is not None and b.val >= 128) for b in bs):
        raise Undecided("slicing a byte string with possible multi-byte characters")
    return _ret(i, st, pc, Opaque("bstr", (tuple(bs[lo:hi]),)))


def bstr_bytes(i, fr, st, pc, a, t, fn, r):
    bs = a[0].data[0]
    if fn["name"] == "as_bytes":
        cell = new_cell()
        st.mem[cell] = Arr(list(bs))
        return _ret(i, st, pc, Ptr(cell, (), (0, len(bs)), "ref"))
    if fn["name"] == "chars":
        return _ret(i, st, pc, Opaque("vals", (tuple(W(32, bits=(b.all_bits() + [ZERO] * 24)) if b.val is None else wconst(32, b.val) for b in bs), usize(0))))
    return _ret(i, st, pc, Opaque("vals", (tuple(bs), usize(0))))


def bstr_from_str_radix(i, fr, st, pc, a, t, fn, r):
    """uN::from_str_radix(s, 16) decoded digit by digit: Ok(value) iff the text is an optional '+' followed by at
    least one hex digit (either case) and fits; Err otherwise"""
    from .absint import w_shl
    s, radix = a
    if radix.val != 16:
        raise Undecided("from_str_radix radix")
    bs = list(s.data[0])
    width = 64
    m_ = _INT_RE.match(fn.get("path", "")) if hasattr(fn, "get") else None
    if not bs:
        return _ret(i, st, pc, Agg("adt", RESULT, 1, (TopV("ParseIntError"),)))
    if len(bs) > width // 4:
        raise Undecided("from_str_radix of %d characters" % len(bs))
    valid = wbool(True)
    val_bits = [ZERO] * width
    for k, b in enumerate(bs):
        vk, dk = _digit_value(i, fr, b)
        if k == 0 and len(bs) > 1:
            plus = w_eq(b, wconst(b.width, 43))
            vk = _b_or(vk, plus)
        valid = b_and(valid, vk)
        sh = 4 * (len(bs) - 1 - k)
        for j in range(4):
            val_bits[sh + j] = dk.all_bits()[j]
    val = W(width, bits=val_bits)
    outs = []
    for s2, p2, ok in _split_bool(i, st, pc, valid):
        outs.append(Outcome("return", s2, p2, Agg("adt", RESULT, 0, (val,)) if ok else Agg("adt", RESULT, 1, (TopV("ParseIntError"),))))
    return outs


def _split_bool_any(i, st, pc, v):
    return _split_bool(i, st, pc, v)


for _p, _new in (("core::str::<impl str>::is_ascii", bstr_is_ascii), ("core::str::<impl str>::len", bstr_len),
                 ("core::str::traits::<impl std::ops::Index<I> for str>::index", bstr_index),
                 ("core::str::<impl str>::bytes", bstr_bytes), ("core::str::<impl str>::chars", bstr_bytes),
                 ("core::str::<impl str>::as_bytes", bstr_bytes), ("core::num::<impl u64>::from_str_radix", bstr_from_str_radix)):
    TABLE[_p] = bstr_dispatch(TABLE[_p], _new)
TABLE.update({
    "core::num::<impl u8>::is_ascii_hexdigit": u8_class("hexdigit"),
    "core::num::<impl u8>::is_ascii_digit": u8_class("digit"),
    "core::num::<impl u8>::is_ascii_uppercase": u8_class("upper"),
    "core::num::<impl u8>::is_ascii_lowercase": u8_class("lower"),
    "core::num::<impl u8>::is_ascii": u8_class("ascii"),
    "core::char::methods::<impl char>::is_ascii_hexdigit": u8_class("hexdigit"),
    "core::char::methods::<impl char>::is_ascii_digit": u8_class("digit"),
    "core::char::methods::<impl char>::is_ascii": u8_class("ascii"),
    "core::char::methods::<impl char>::to_digit": char_to_digit,
    "core::char::methods::<impl char>::is_digit": char_to_digit,
})

TABLE.update({
    "<std::str::Bytes<'_> as std::iter::Iterator>::all": generic_all_any,
    "<std::str::Bytes<'_> as std::iter::Iterator>::any": generic_all_any,
    "<std::str::Chars<'a> as std::iter::Iterator>::all": generic_all_any,
    "<std::str::Chars<'a> as std::iter::Iterator>::any": generic_all_any,
    "<std::str::Bytes<'_> as std::iter::Iterator>::next": multi_next,
    "<std::str::Chars<'a> as std::iter::Iterator>::next": multi_next,
})


def bytes_is_ascii(i, fr, st, pc, a, t, fn, r):
    acc = wbool(True)
    for e in i.slice_elems(st, a[0]):
        b = i.read_ptr(st, e) if isinstance(e, Ptr) else e
        if not isinstance(b, W):
            raise Undecided("is_ascii of %r" % (b,))
        acc = b_and(acc, wbool(b.val < 128) if b.val is not None else b_not(W(1, bits=[b.all_bits()[7]])))
    return _ret(i, st, pc, acc)


def char_from_u8(i, fr, st, pc, a, t, fn, r):
    b = a[0]
    if b.val is not None:
        return _ret(i, st, pc, wconst(32, b.val))
    return _ret(i, st, pc, W(32, bits=(b.all_bits() + [ZERO] * 32)[:32]))


def str_split_at(i, fr, st, pc, a, t, fn, r):
    s, mid = a
    if isinstance(s, Ptr) and s.sl is None:
        s = i.read_ptr(st, s)
    if mid.val is None:
        raise Undecided("symbolic split point")
    if _bstr(s):
        bs = s.data[0]
        if mid.val > len(bs):
            return i.panic(st, pc, "split_at: mid out of range", fr, t)
        if any((b.val is None and b.all_bits()[7] != ZERO) or (b.val is not None and b.val >= 128) for b in bs):
            raise Undecided("split of a byte string with possible multi-byte characters")
        return _ret(i, st, pc, Agg("tuple", None, 0, (Opaque("bstr", (tuple(bs[:mid.val]),)), Opaque("bstr", (tuple(bs[mid.val:]),)))))
    if not (isinstance(s, Opaque) and s.kind == "str") or s.data[0] is not None:
        raise Undecided("split_at of %r" % (s,))
    ln = s.data[1]
    if ln.val is None:
        raise Undecided("split_at of a string of unknown length")
    if mid.val > ln.val:
        return i.panic(st, pc, "split_at: mid out of range", fr, t)
    base = s.data[2][1] if len(s.data) > 2 else 0
    lo = Opaque("str", (None, usize(mid.val), ("sub", base, base + mid.val)))
    hi = Opaque("str", (None, usize(ln.val - mid.val), ("sub", base + mid.val, base + ln.val)))
    outs = [Outcome("return", st, pc, Agg("tuple", None, 0, (lo, hi)))]
    if not _ascii_guarded(pc) and 0 < mid.val < ln.val:
        info = dict(kind="std", msg="byte index is not a char boundary (string not known to be ASCII)", fn=fr.fn_path, span=t["span"], profile_dependent=False, definite=False)
        outs.append(Outcome("panic", st.fork(), pc, None, info))
    return outs


TABLE.update({
    "core::slice::ascii::<impl [u8]>::is_ascii": bytes_is_ascii,
    "std::char::convert::<impl std::convert::From<u8> for char>::from": char_from_u8,
    "core::str::<impl str>::split_at": str_split_at,
})


def it_try_fold(i, fr, st, pc, a, t, fn, r):
    """try_fold(init, f) for closures returning Option / Result: stops at the first None / Err"""
    src, init, clos = a
    other = []
    kind_seen = []

    def step(s, p, acc, item):
        res = []
        for o in call_closure(i, fr, s, p, clos, [acc[1], item]):
            if o.kind != "return":
                other.append(o)
                continue
            v = o.value
            if not (isinstance(v, Agg) and v.key in (OPTION, RESULT)):
                raise Undecided("try_fold closure returns %r" % (v,))
            kind_seen.append(v.key)
            good = (v.variant == 1) if v.key == OPTION else (v.variant == 0)
            if good:
                res.append((o.state, o.pc, ("acc", v.fields[0]), False))
            else:
                res.append((o.state, o.pc, ("stop", v), True))
        return res

    def finish(s, p, acc):
        if acc[0] == "stop":
            return acc[1]
        out_ty = (r or fn).get("args") or []
        key = kind_seen[0] if kind_seen else None
        if key is None:
            for x in out_ty:
                if isinstance(x, dict) and x.get("path") in ("std::option::Option", "std::result::Result"):
                    key = OPTION if x["path"].endswith("Option") else RESULT
        if key == OPTION:
            return some(acc[1])
        if key == RESULT:
            return Agg("adt", RESULT, 0, (acc[1],))
        raise Undecided("try_fold result type")
    return _drive(i, fr, st, pc, src, ("acc", init), step, finish) + other


TABLE.update({
    "std::iter::Iterator::try_fold": it_try_fold,
    "std::char::methods::<impl char>::to_digit": char_to_digit,
    "std::char::methods::<impl char>::is_digit": char_to_digit,
    "std::char::methods::<impl char>::is_ascii_hexdigit": u8_class("hexdigit"),
    "std::char::methods::<impl char>::is_ascii_digit": u8_class("digit"),
})


# ---------------------------------------------------------------------------------- Option / Result combinators
CF = "std::ops::ControlFlow"


def _opt_good(v):
    if not isinstance(v, Agg) or v.key not in (OPTION, RESULT):
        raise Undecided("Option/Result combinator on %r" % (v,))
    return (v.variant == 1) if v.key == OPTION else (v.variant == 0)


def _wrap_like(v, x, good=True):
    if v.key == OPTION:
        return some(x) if good else NONE
    return Agg("adt", RESULT, 0 if good else 1, (x,))


def option_branch(i, fr, st, pc, a, t, fn, r):
    v = a[0]
    if _opt_good(v):
        return _ret(i, st, pc, Agg("adt", CF, 0, (v.fields[0],)))
    return _ret(i, st, pc, Agg("adt", CF, 1, (v,)))


def option_from_residual(i, fr, st, pc, a, t, fn, r):
    out = ((r or fn).get("args") or [{}])[0]
    if isinstance(out, dict) and str(out.get("path", "")).endswith("Result"):
        v = a[0]
        return _ret(i, st, pc, Agg("adt", RESULT, 1, (v.fields[0],)) if isinstance(v, Agg) and v.fields else v)
    return _ret(i, st, pc, NONE)


def opt_comb(name):
    def f(i, fr, st, pc, a, t, fn, r):
        v = a[0]
        if isinstance(v, Ptr) and v.sl is None and name in ("as_ref", "copied", "cloned"):
            v = i.read_ptr(st, v)
        good = _opt_good(v)
        x = v.fields[0] if v.fields else None

        def call1(clos, args):
            outs = []
            for o in call_closure(i, fr, st, pc, clos, args):
                outs.append(o)
            return outs
        if name == "ok_or":
            return _ret(i, st, pc, Agg("adt", RESULT, 0, (x,)) if good else Agg("adt", RESULT, 1, (a[1],)))
        if name == "ok_or_else":
            if good:
                return _ret(i, st, pc, Agg("adt", RESULT, 0, (x,)))
            return [Outcome("return", o.state, o.pc, Agg("adt", RESULT, 1, (o.value,))) if o.kind == "return" else o for o in call1(a[1], [])]
        if name == "ok":
            return _ret(i, st, pc, some(x) if good else NONE)
        if name == "err":
            return _ret(i, st, pc, NONE if good else some(x))
        if name == "map":
            if not good:
                return _ret(i, st, pc, v)
            return [Outcome("return", o.state, o.pc, _wrap_like(v, o.value)) if o.kind == "return" else o for o in call1(a[1], [x])]
        if name == "map_err":
            if good:
                return _ret(i, st, pc, v)
            return [Outcome("return", o.state, o.pc, Agg("adt", RESULT, 1, (o.value,))) if o.kind == "return" else o for o in call1(a[1], [x])]
        if name == "and_then":
            if not good:
                return _ret(i, st, pc, v)
            return call1(a[1], [x])
        if name == "filter":
            if not good:
                return _ret(i, st, pc, v)
            c = new_cell()
            st.mem[c] = x
            outs = []
            for o in call_closure(i, fr, st, pc, a[1], [Ptr(c, ())]):
                if o.kind != "return":
                    outs.append(o)
                    continue
                for s2, p2, keep in _split_bool(i, o.state, o.pc, o.value):
                    outs.append(Outcome("return", s2, p2, v if keep else NONE))
            return outs
        if name == "unwrap_or_else":
            if good:
                return _ret(i, st, pc, x)
            return call1(a[1], [] if v.key == OPTION else [x])
        if name == "unwrap_or_default":
            if good:
                return _ret(i, st, pc, x)
            raise Undecided("unwrap_or_default on the empty variant")
        if name in ("copied", "cloned"):
            if good and isinstance(x, Ptr):
                return _ret(i, st, pc, _wrap_like(v, i.read_ptr(st, x)))
            return _ret(i, st, pc, v)
        if name == "or":
            return _ret(i, st, pc, v if good else a[1])
        if name == "and":
            return _ret(i, st, pc, a[1] if good else v)
        if name == "map_or":
            if not good:
                return _ret(i, st, pc, a[1])
            return call1(a[2], [x])
        if name == "is_some_and":
            if not good:
                return _ret(i, st, pc, wbool(False))
            return call1(a[1], [x])
        raise Undecided("combinator " + name)
    return f


for _n in ("ok_or", "ok_or_else", "map", "and_then", "filter", "unwrap_or_else", "unwrap_or_default", "copied", "cloned", "or", "and", "map_or", "is_some_and"):
    TABLE["std::option::Option::<T>::" + _n] = opt_comb(_n)
    TABLE["std::option::Option::<&T>::" + _n] = opt_comb(_n)
for _n in ("ok", "err", "map", "map_err", "and_then", "unwrap_or_else", "unwrap_or_default", "or", "and", "map_or"):
    TABLE["std::result::Result::<T, E>::" + _n] = opt_comb(_n)
TABLE.update({
    "<std::option::Option<T> as std::ops::Try>::branch": option_branch,
    "<std::option::Option<T> as std::ops::FromResidual<std::option::Option<std::convert::Infallible>>>::from_residual": option_from_residual,
    "<std::result::Result<T, F> as std::ops::FromResidual<std::option::Option<std::convert::Infallible>>>::from_residual": option_from_residual,
})


_FROM_INT_RE = _re_mod.compile(r"^std::convert::num::<impl std::convert::From<([ui])(\d+|size)> for ([ui])(\d+|size)>::from$")


def _from_int_dispatch(path):
    m = _FROM_INT_RE.match(path)
    if not m:
        return None
    sw = 64 if m.group(2) == "size" else int(m.group(2))
    dw = 64 if m.group(4) == "size" else int(m.group(4))
    ssigned, dsigned = m.group(1) == "i", m.group(3) == "i"

    def h(i, fr, st, pc, a, t, fn, r):
        x = a[0]
        if not isinstance(x, W):
            raise Undecided("integer conversion of %r" % (x,))
        if x.val is not None:
            v = x.sval() if ssigned else x.val
            return _ret(i, st, pc, W(dw, val=v & ((1 << dw) - 1), signed=dsigned))
        bits = x.all_bits()
        ext = bits[-1] if ssigned else ZERO
        return _ret(i, st, pc, W(dw, bits=(bits + [ext] * dw)[:dw], signed=dsigned))
    return h


def slice_rchunks(exact):
    """rchunks / rchunks_exact (and _mut): chunks taken from the end; a short remainder chunk comes last (at the front)"""
    def f(i, fr, st, pc, a, t, fn, r):
        p, c = a
        if isinstance(p, Ptr) and p.sl is None:
            inner = i.read_ptr(st, p)
            if isinstance(inner, Ptr):
                p = inner
        if c.val is None:
            raise Undecided("chunk size")
        if c.val == 0:
            return i.panic(st, pc, "chunk size must be non-zero", fr, t)
        n = i.slice_len(st, p)
        start = p.sl[0] if p.sl else 0
        out = []
        end = n
        while end > 0:
            ln = min(c.val, end)
            if ln < c.val and exact:
                break
            out.append(Ptr(p.cell, p.path, (start + end - ln, ln), "ref"))
            end -= ln
        return _ret(i, st, pc, Opaque("vals", (tuple(out), usize(0))))
    return f


def vals_len(i, fr, st, pc, a, t, fn, r):
    """ExactSizeIterator::len / count of a materialised iterator"""
    it = i.read_ptr(st, a[0]) if isinstance(a[0], Ptr) else a[0]
    if isinstance(it, Opaque) and it.kind == "vals":
        return _ret(i, st, pc, usize(len(it.data[0]) - it.data[1].val))
    if isinstance(it, Opaque) and it.kind == "slice_iter":
        return _ret(i, st, pc, usize(it.data[2].val - it.data[1].val))
    raise Undecided("len of %r" % (it,))


for _nm, _ex in (("rchunks", False), ("rchunks_mut", False), ("rchunks_exact", True), ("rchunks_exact_mut", True)):
    TABLE["core::slice::<impl [T]>::" + _nm] = slice_rchunks(_ex)
for _ty in ("RChunks<'a, T>", "RChunksMut<'a, T>", "RChunksExact<'a, T>", "RChunksExactMut<'a, T>"):
    TABLE["<std::slice::%s as std::iter::Iterator>::next" % _ty] = multi_next
TABLE["std::iter::ExactSizeIterator::len"] = vals_len


def str_from_utf8(i, fr, st, pc, a, t, fn, r):
    """str::from_utf8 on bytes that are all single-byte characters (bit 7 known to be 0): Ok(the same text)"""
    bs = []
    for e in i.slice_elems(st, a[0]):
        b = i.read_ptr(st, e) if isinstance(e, Ptr) else e
        if not isinstance(b, W):
            raise Undecided("from_utf8 of %r" % (b,))
        if (b.val is not None and b.val >= 128) or (b.val is None and b.all_bits()[7] != ZERO):
            raise Undecided("from_utf8 of possibly non-ASCII bytes")
        bs.append(b)
    v = Opaque("bstr", (tuple(bs),))
    if fn["name"] == "from_utf8_unchecked":
        return _ret(i, st, pc, v)
    return _ret(i, st, pc, Agg("adt", RESULT, 0, (v,)))


TABLE.update({
    "std::str::from_utf8": str_from_utf8,
    "core::str::from_utf8": str_from_utf8,
    "std::str::from_utf8_unchecked": str_from_utf8,
    "core::str::from_utf8_unchecked": str_from_utf8,
})


def array_from_fn(i, fr, st, pc, a, t, fn, r):
    """std::array::from_fn(f): [f(0), f(1), .., f(N-1)]"""
    info = r or fn
    n = None
    for x in (info.get("args") or []):
        if isinstance(x, dict) and x.get("k") == "const":
            c = x.get("c")
            if isinstance(c, dict) and c.get("k") == "param":
                n = fr.env.get(c.get("name"))
            elif isinstance(c, dict):
                n = c.get("val", c.get("v"))
            elif isinstance(c, int):
                n = c
    if not isinstance(n, int):
        raise Undecided("array::from_fn length")
    work = [(st, pc, [], 0)]
    outs = []
    while work:
        s_, p_, acc, k = work.pop()
        if k == n:
            outs.append(Outcome("return", s_, p_, Arr(acc)))
            continue
        for o in call_closure(i, fr, s_, p_, a[0], [usize(k)]):
            if o.kind != "return":
                outs.append(o)
            else:
                work.append((o.state, o.pc, acc + [o.value], k + 1))
        if len(work) + len(outs) > i.max_paths:
            raise Undecided("path budget in array::from_fn")
    return outs


TABLE.update({
    "std::array::from_fn": array_from_fn,
    "std::iter::zip": it_zip2,
})


# ---------------------------------------------------------------------------------- refactor round C idioms
def int_default(i, fr, st, pc, a, t, fn, r):
    ty = ((r or fn).get("args") or [{}])[0]
    m_ = _re_mod.match(r"^<([ui])(\d+|size) as ", (r or fn).get("path", "") or "")
    if m_:
        return _ret(i, st, pc, W(64 if m_.group(2) == "size" else int(m_.group(2)), val=0, signed=m_.group(1) == "i"))
    if "<bool as " in ((r or fn).get("path", "") or ""):
        return _ret(i, st, pc, wbool(False))
    if isinstance(ty, dict) and ty.get("k") in ("uint", "int"):
        return _ret(i, st, pc, W(ty.get("w", 64), val=0, signed=ty.get("k") == "int"))
    if isinstance(ty, dict) and ty.get("k") == "bool":
        return _ret(i, st, pc, wbool(False))
    raise Undecided("Default of %r" % (ty,))


def as_slice_view(i, fr, st, pc, a, t, fn, r):
    p = a[0]
    v = i.read_ptr(st, p) if isinstance(p, Ptr) and p.sl is None else p
    if isinstance(v, Ptr) and v.sl is not None:
        return _ret(i, st, pc, Ptr(v.cell, v.path, v.sl, "ref"))
    if isinstance(v, Arr):
        return _ret(i, st, pc, Ptr(p.cell, p.path, (0, len(v.elems)), "ref"))
    raise Undecided("as_slice of %r" % (v,))


def ordering_is(i, fr, st, pc, a, t, fn, r):
    v = a[0]
    nm = fn["name"]
    if isinstance(v, Agg):
        c = v.variant - 1
        return _ret(i, st, pc, wbool({"is_eq": c == 0, "is_ne": c != 0, "is_lt": c < 0, "is_gt": c > 0, "is_le": c <= 0, "is_ge": c >= 0}[nm]))
    if isinstance(v, Opaque) and v.kind == "lexcmp" and nm in ("is_ne", "is_eq"):
        la, lb = v.data
        acc = wbool(True)
        for x, y in zip(la, lb):
            acc = b_and(acc, w_eq(x, y))
        return _ret(i, st, pc, acc if nm == "is_eq" else b_not(acc))
    if isinstance(v, Opaque) and v.kind == "lexcmp" and nm == "is_lt":
        return is_lt(i, fr, st, pc, a, t, fn, r)
    raise Undecided("%s on %r" % (nm, v))


def int_clamp(i, fr, st, pc, a, t, fn, r):
    x, lo, hi = a
    if not all(isinstance(v, W) and v.val is not None for v in (x, lo, hi)):
        raise Undecided("symbolic clamp")
    if lo.val > hi.val:
        return i.panic(st, pc, "assertion failed: min <= max", fr, t)
    return _ret(i, st, pc, W(x.width, val=min(max(x.val, lo.val), hi.val), signed=x.signed))


def vec_extend_from_within(i, fr, st, pc, a, t, fn, r):
    vp, rg = a
    h = i.read_ptr(st, vp)
    elems = list(i.slice_elems(st, h))
    vals = [i.read_ptr(st, e) if isinstance(e, Ptr) and e.sl is None else e for e in elems]
    lo, hi = 0, len(vals)
    if isinstance(rg, Agg) and rg.fields:
        nm = rg.key or ""
        f_ = [x.val for x in rg.fields]
        if any(x is None for x in f_):
            raise Undecided("symbolic range")
        if "RangeFrom" in nm:
            lo = f_[0]
        elif "RangeTo" in nm:
            hi = f_[0]
        elif len(f_) >= 2:
            lo, hi = f_[0], f_[1]
    if lo > hi or hi > len(vals):
        return i.panic(st, pc, "range out of bounds", fr, t)
    _vec_set(i, st, vp, vals + vals[lo:hi])
    return _ret(i, st, pc, UNIT)


def box_new(i, fr, st, pc, a, t, fn, r):
    cell = new_cell()
    st.mem[cell] = a[0]
    return _ret(i, st, pc, Ptr(cell, (), None, "box"))


def iter_lt_family(i, fr, st, pc, a, t, fn, r):
    """Iterator::lt / le / gt / ge / eq / ne: from the lexicographic comparison of the two item sequences"""
    outs = []
    for o in iterator_cmp(i, fr, st, pc, a, t, dict(fn, name="cmp"), r):
        if o.kind != "return":
            outs.append(o)
            continue
        v = o.value
        nm = fn["name"]
        if isinstance(v, Agg):
            c = v.variant - 1
            outs.append(Outcome("return", o.state, o.pc, wbool({"lt": c < 0, "le": c <= 0, "gt": c > 0, "ge": c >= 0, "eq": c == 0, "ne": c != 0}[nm])))
        elif isinstance(v, Opaque) and v.kind == "lexcmp" and nm == "lt":
            outs += is_lt(i, fr, o.state, o.pc, [v], t, fn, r)
        else:
            raise Undecided("Iterator::%s on %r" % (nm, v))
    return outs


TABLE.update({
    "<u8 as std::default::Default>::default": int_default, "<u16 as std::default::Default>::default": int_default,
    "<u32 as std::default::Default>::default": int_default, "<u64 as std::default::Default>::default": int_default,
    "<usize as std::default::Default>::default": int_default, "<bool as std::default::Default>::default": int_default,
    "std::vec::Vec::<T, A>::as_mut_slice": as_slice_view, "std::vec::Vec::<T, A>::as_slice": as_slice_view,
    "std::array::<impl [T; N]>::as_mut_slice": as_slice_view, "std::array::<impl [T; N]>::as_slice": as_slice_view,
    "std::cmp::Ordering::is_ne": ordering_is, "std::cmp::Ordering::is_eq": ordering_is, "std::cmp::Ordering::is_gt": ordering_is,
    "std::cmp::Ordering::is_le": ordering_is, "std::cmp::Ordering::is_ge": ordering_is,
    "std::cmp::impls::<impl std::cmp::Ord for usize>::clamp": int_clamp, "std::cmp::Ord::clamp": int_clamp,
    "std::vec::Vec::<T, A>::extend_from_within": vec_extend_from_within,
    "std::boxed::Box::<T>::new": box_new,
    "std::iter::Iterator::lt": iter_lt_family, "std::iter::Iterator::le": iter_lt_family, "std::iter::Iterator::gt": iter_lt_family,
    "std::iter::Iterator::ge": iter_lt_family,
})


def refcell_new(i, fr, st, pc, a, t, fn, r):
    """RefCell / Cell as a transparent box (dynamic borrow conflicts are not modelled: assumed absent)"""
    cell = new_cell()
    st.mem[cell] = a[0]
    return _ret(i, st, pc, Ptr(cell, (), None, "box"))


def refcell_borrow(i, fr, st, pc, a, t, fn, r):
    v = i.read_ptr(st, a[0]) if isinstance(a[0], Ptr) else a[0]
    if isinstance(v, Ptr) and v.kind == "box":
        return _ret(i, st, pc, Ptr(v.cell, v.path, v.sl, "ref"))
    raise Undecided("borrow of %r" % (v,))


def refcell_into_inner(i, fr, st, pc, a, t, fn, r):
    v = a[0]
    if isinstance(v, Ptr):
        return _ret(i, st, pc, i.read_ptr(st, v))
    raise Undecided("into_inner of %r" % (v,))


def ref_guard_deref(i, fr, st, pc, a, t, fn, r):
    """Deref / DerefMut of a Ref / RefMut guard (modelled as the reference itself): &guard -> the reference"""
    v = i.read_ptr(st, a[0]) if isinstance(a[0], Ptr) else a[0]
    if isinstance(v, Ptr):
        return _ret(i, st, pc, v)
    return _ret(i, st, pc, a[0])


TABLE.update({
    "std::cell::RefCell::<T>::new": refcell_new,
    "std::cell::RefCell::<T>::borrow": refcell_borrow,
    "std::cell::RefCell::<T>::borrow_mut": refcell_borrow,
    "std::cell::RefCell::<T>::into_inner": refcell_into_inner,
    "<std::cell::Ref<'_, T> as std::ops::Deref>::deref": ref_guard_deref,
    "<std::cell::RefMut<'_, T> as std::ops::Deref>::deref": ref_guard_deref,
    "<std::cell::RefMut<'_, T> as std::ops::DerefMut>::deref_mut": ref_guard_deref,
})


def rng_fill_bytes(i, fr, st, pc, a, t, fn, r):
    """RngCore::fill_bytes(&mut [u8]): one fresh 8-bit draw per byte"""
    src = i.read_ptr(st, a[0]) if isinstance(a[0], Ptr) else a[0]
    if not (isinstance(src, Opaque) and src.kind == "thread_rng"):
        raise Undecided("fill_bytes from %r" % (src,))
    dest = a[1]
    if isinstance(dest, Ptr) and dest.sl is None:
        inner = i.read_ptr(st, dest)
        if isinstance(inner, Ptr):
            dest = inner
        elif isinstance(inner, Arr):
            dest = Ptr(dest.cell, dest.path, (0, len(inner.elems)), "ref")
    new = []
    for e in i.slice_elems(st, dest):
        k = i.rng_calls
        i.rng_calls += 1
        new.append(W(8, bits=[B.atom("rng%d[%d]" % (k, b)) for b in range(8)]))
    i.write_slice(st, dest, new)
    return _ret(i, st, pc, UNIT)


def int_from_bytes(i, fr, st, pc, a, t, fn, r):
    """uN::from_le_bytes / from_be_bytes / from_ne_bytes([u8; N/8]) (little endian target)"""
    arr = a[0]
    if isinstance(arr, Ptr):
        arr = i.read_ptr(st, arr)
    if not isinstance(arr, Arr):
        raise Undecided("from_bytes of %r" % (arr,))
    elems = list(arr.elems)
    if fn["name"] == "from_be_bytes":
        elems = elems[::-1]
    bits = []
    for e in elems:
        if not isinstance(e, W):
            raise Undecided("from_bytes of non-bytes")
        bits += e.all_bits()
    w = len(bits)
    if all(b is not None and not b[0] for b in bits):
        return _ret(i, st, pc, wconst(w, sum((b[1] & 1) << k for k, b in enumerate(bits))))
    return _ret(i, st, pc, W(w, bits=bits))


def int_to_bytes(i, fr, st, pc, a, t, fn, r):
    x = a[0]
    if not isinstance(x, W):
        raise Undecided("to_bytes of %r" % (x,))
    bits = x.all_bits()
    bs = [W(8, bits=bits[k:k + 8]) if x.val is None else wconst(8, (x.val >> k) & 255) for k in range(0, x.width, 8)]
    if fn["name"] == "to_be_bytes":
        bs = bs[::-1]
    return _ret(i, st, pc, Arr(bs))


TABLE.update({
    "rand::RngCore::fill_bytes": rng_fill_bytes,
    "<rand::prelude::ThreadRng as rand::RngCore>::fill_bytes": rng_fill_bytes,
})
for _w in (16, 32, 64, 128):
    for _nm in ("from_le_bytes", "from_be_bytes", "from_ne_bytes"):
        TABLE["core::num::<impl u%d>::%s" % (_w, _nm)] = int_from_bytes
    for _nm in ("to_le_bytes", "to_be_bytes", "to_ne_bytes"):
        TABLE["core::num::<impl u%d>::%s" % (_w, _nm)] = int_to_bytes


def array_index_range(i, fr, st, pc, a, t, fn, r):
    """Index / IndexMut on [T; N] with an integer or a range: the array viewed as a slice"""
    p = a[0]
    if isinstance(p, Ptr) and p.sl is None:
        tgt = i.read_ptr(st, p)
        if isinstance(tgt, Arr):
            p = Ptr(p.cell, p.path, (0, len(tgt.elems)), "ref")
    return index_mut_range(i, fr, st, pc, [p, a[1]], t, fn, r)


def slice_swap_with_slice(i, fr, st, pc, a, t, fn, r):
    pa, pb = a
    ea, eb = list(i.slice_elems(st, pa)), list(i.slice_elems(st, pb))
    if len(ea) != len(eb):
        return i.panic(st, pc, "destination and source slices have different lengths", fr, t)
    va = [i.read_ptr(st, e) if isinstance(e, Ptr) and e.sl is None else e for e in ea]
    vb = [i.read_ptr(st, e) if isinstance(e, Ptr) and e.sl is None else e for e in eb]
    i.write_slice(st, pa, vb)
    i.write_slice(st, pb, va)
    return _ret(i, st, pc, UNIT)


TABLE.update({
    "std::array::<impl std::ops::IndexMut<I> for [T; N]>::index_mut": array_index_range,
    "std::array::<impl std::ops::Index<I> for [T; N]>::index": array_index_range,
    "core::slice::<impl [T]>::swap_with_slice": slice_swap_with_slice,
})


def _lex_split(i, fr, st, pc, la, lb, t):
    """window mode: the lexicographic comparison of two word sequences as paths with exact conditions"""
    outs = []
    work = [(st, pc, 0)]
    while work:
        s, p, k = work.pop()
        if k >= len(la) or k >= len(lb):
            c = (len(la) > len(lb)) - (len(la) < len(lb))
            outs.append(Outcome("return", s, p, ordering(c)))
            continue
        res, other = _compare(i, fr, s, p, la[k], lb[k], t)
        outs += other
        for s2, p2, c in res:
            if c == 0:
                work.append((s2, p2, k + 1))
            else:
                outs.append(Outcome("return", s2, p2, ordering(c)))
    return outs


def ord_cmp_signed(i, fr, st, pc, a, t, fn, r):
    x, y = i.read_ptr(st, a[0]), i.read_ptr(st, a[1])
    if isinstance(x, W) and isinstance(y, W) and x.val is not None and y.val is not None:
        xs, ys = x.sval(), y.sval()
        return _ret(i, st, pc, ordering((xs > ys) - (xs < ys)))
    if not getattr(i, "cmp_split", False):
        raise Undecided("order of symbolic signed integers")
    xs = W(x.width, val=x.val, signed=True) if x.val is not None else W(x.width, bits=x.all_bits(), signed=True)
    ys = W(y.width, val=y.val, signed=True) if y.val is not None else W(y.width, bits=y.all_bits(), signed=True)
    if xs.val is not None:
        xs = W(x.width, bits=xs.all_bits(), signed=True)
    if ys.val is not None:
        ys = W(y.width, bits=ys.all_bits(), signed=True)
    res, other = _compare(i, fr, st, pc, xs, ys, t)
    return list(other) + [Outcome("return", s2, p2, ordering(c)) for s2, p2, c in res]


for _w in ("i8", "i16", "i32", "i64", "i128", "isize"):
    TABLE["std::cmp::impls::<impl std::cmp::Ord for %s>::cmp" % _w] = ord_cmp_signed
for _w in ("u8", "u16", "u128"):
    TABLE["std::cmp::impls::<impl std::cmp::Ord for %s>::cmp" % _w] = ord_cmp_int


def fmt_write_str(i, fr, st, pc, a, t, fn, r):
    """Formatter::write_str / write_char: the text is appended to the formatter's output"""
    fp = a[0]
    f = i.read_ptr(st, fp)
    if not (isinstance(f, Opaque) and f.kind == "formatter"):
        raise Undecided("write_str on %r" % (f,))
    i.write_ptr(st, fp, Opaque("formatter", (f.data[0] + string_tokens(i, st, a[1]),)))
    return _ret(i, st, pc, Agg("adt", RESULT, 0, (UNIT,)))


TABLE.update({
    "std::fmt::Formatter::<'a>::write_str": fmt_write_str,
    "<std::fmt::Formatter<'_> as std::fmt::Write>::write_str": fmt_write_str,
    "<std::fmt::Formatter<'_> as std::fmt::Write>::write_char": fmt_write_str,
    "std::fmt::Write::write_char": fmt_write_str,
})


def render_text(tokens, asg):
    """the concrete text of a token list under a total assignment of the atoms (std formatting of integers)"""
    from .harness import eval_value
    out = []
    for tk in tokens:
        if tk[0] == "lit":
            out.append(tk[1])
        elif tk[0] == "bytes":
            for b in tk[1]:
                v = eval_value(b, asg)
                if v is None:
                    raise Undecided("text byte with top")
                out.append(chr(v))
        elif tk[0] == "fmt":
            _, kind, flags, width, v = tk
            if isinstance(v, Opaque) and v.kind in ("string",):
                txt = render_text(v.data[0], asg)
            elif isinstance(v, Opaque) and v.kind == "str" and v.data[0] is not None:
                txt = v.data[0]
            elif isinstance(v, W):
                val = eval_value(v, asg)
                if val is None:
                    raise Undecided("formatted value with top")
                if v.width == 1 and kind == "display":
                    txt = "true" if val else "false"
                else:
                    txt = {"display": "%d", "usize": "%d", "debug": "%d", "lower_hex": "%x", "upper_hex": "%X"}.get(kind, None)
                    txt = (txt % val) if txt else (bin(val)[2:] if kind == "binary" else None)
                    if txt is None:
                        raise Undecided("format kind %s" % kind)
            else:
                raise Undecided("formatted %r" % (v,))
            wv = None
            if width is not None:
                wv = eval_value(width, asg) if isinstance(width, W) else None
                if wv is None:
                    raise Undecided("symbolic width")
            if wv is not None and len(txt) < wv:
                txt = ("0" if flags == "0" else " ") * (wv - len(txt)) + txt if (flags == "0" or not isinstance(v, Opaque)) else txt + " " * (wv - len(txt))
            out.append(txt)
        else:
            raise Undecided("token %r" % (tk[0],))
    return "".join(out)


def ptr_eq(i, fr, st, pc, a, t, fn, r):
    """std::ptr::eq on two references: same object (cell, path, window) or not"""
    x, y = a
    if isinstance(x, Ptr) and isinstance(y, Ptr):
        return _ret(i, st, pc, wbool(x.cell == y.cell and x.path == y.path and x.sl == y.sl))
    raise Undecided("ptr::eq of %r and %r" % (x, y))


TABLE.update({"std::ptr::eq": ptr_eq, "core::ptr::eq": ptr_eq})


def _int_dispatch(path):
    m = _INT_RE.match(path)
    if not m:
        return None
    name = m.group(2)

    def h(i, fr, st, pc, a, t, fn, r):
        return int_method(i, fr, st, pc, a, t, fn, r, name=name, tyname=m.group(1))
    return h

PREFIX = []


def localkey_with(i, fr, st, pc, a, t, fn, r):
    """LocalKey::with(f): f(&storage) where the storage of this thread lives in the abstract state under the key's
    path (so it persists from one call to the next in a history on one thread) and is created on first use by the
    init function the `thread_local!` macro generates"""
    key, clos = a[0], a[1]
    if isinstance(key, Ptr):
        key = i.read_ptr(st, key)
    if not (isinstance(key, Opaque) and key.kind == "localkey"):
        raise Undecided("LocalKey::with on %r" % (key,))
    cell = "tls:" + key.data[1]
    if cell not in st.mem:
        init = i.facts.body(key.data[1] + "::__rust_std_internal_init_fn")
        if init is None or init.get("mir") is None:
            raise Undecided("thread_local initialiser of %s" % key.data[0])
        outs = i.call_mir(init, init["mir"], [], st, dict(fr.env), fr.depth + 1, pc)
        if len(outs) != 1 or outs[0].kind != "return":
            raise Undecided("thread_local initialiser of %s has %d outcomes" % (key.data[0], len(outs)))
        st = outs[0].state
        st.mem[cell] = outs[0].value
        pc = outs[0].pc
    return call_closure(i, fr, st, pc, clos, [Ptr(cell, ())])


TABLE.update({
    "std::thread::LocalKey::<T>::with": localkey_with,
})


def _int_bitop(op):
    def f(i, fr, st, pc, a, t, fn, r):
        """`<uN as BitAnd>::bitand` etc. used as a function value (`zip_words(a, b, BitAnd::bitand)`): the MIR operator"""
        x, y = a[0], a[1]
        if isinstance(x, Ptr):
            x = i.read_ptr(st, x)
        if isinstance(y, Ptr):
            y = i.read_ptr(st, y)
        if not (isinstance(x, W) and isinstance(y, W)):
            raise Undecided("%s on %r, %r" % (fn.get("path"), x, y))
        return _ret(i, st, pc, i.binop(op, x, y, fr))
    return f


TABLE.update({
    "std::ops::BitAnd::bitand": _int_bitop("BitAnd"),
    "std::ops::BitOr::bitor": _int_bitop("BitOr"),
    "std::ops::BitXor::bitxor": _int_bitop("BitXor"),
})


def option_get_or_insert_with(i, fr, st, pc, a, t, fn, r):
    """Option::get_or_insert_with(&mut self, f) / get_or_insert(&mut self, v): &mut payload, filled by f() when None"""
    p = a[0]
    o = i.read_ptr(st, p)
    if not (isinstance(p, Ptr) and isinstance(o, Agg) and o.key == OPTION and p.sl is None):
        raise Undecided("get_or_insert_with on %r" % (o,))
    if o.variant == 1:
        return _ret(i, st, pc, Ptr(p.cell, p.path + (0,)))
    if fn["name"] == "get_or_insert":
        i.write_ptr(st, p, some(a[1]))
        return _ret(i, st, pc, Ptr(p.cell, p.path + (0,)))
    res = []
    for oc in call_closure(i, fr, st, pc, a[1], []):
        if oc.kind == "return":
            i.write_ptr(oc.state, p, some(oc.value))
            res.append(Outcome("return", oc.state, oc.pc, Ptr(p.cell, p.path + (0,))))
        else:
            res.append(oc)
    return res


TABLE.update({
    "std::option::Option::<T>::get_or_insert_with": option_get_or_insert_with,
    "std::option::Option::<T>::get_or_insert": option_get_or_insert_with,
})


# ---------------------------------------------------------------------------------- skip_while
def it_skip_while(i, fr, st, pc, a, t, fn, r):
    return _ret(i, st, pc, Opaque("skip_while", (a[0], a[1], False)))


def _has_skip_while(it):
    if isinstance(it, Opaque):
        if it.kind == "skip_while":
            return True
        return any(_has_skip_while(x) for x in it.data if isinstance(x, (Opaque, Ptr)) or x is None or True)
    return False


_old_iter_next_multi_sw = iter_next_multi


def iter_next_multi(i, fr, st, pc, it):  # noqa: F811
    k = it.kind if isinstance(it, Opaque) else None
    if k == "skip_while":
        inner, clos, started = it.data
        if started:
            subs, oth = iter_next_multi(i, fr, st, pc, _as_iter(inner))
            return [(s1, p1, Opaque("skip_while", (it2, clos, True)), item) for s1, p1, it2, item in subs], oth
        res, others = [], []
        work = [(st, pc, _as_iter(inner))]
        while work:
            s, p, cur = work.pop()
            subs, oth = iter_next_multi(i, fr, s, p, cur)
            others.extend(oth)
            for s1, p1, cur2, item in subs:
                if item is None:
                    res.append((s1, p1, Opaque("skip_while", (cur2, clos, True)), None))
                    continue
                cell = new_cell()
                s1.mem[cell] = item
                for o in call_closure(i, fr, s1, p1, clos, [Ptr(cell, ())]):
                    if o.kind != "return":
                        others.append(o)
                        continue
                    v = o.value
                    if isinstance(v, W) and v.val is not None:
                        if v.val:
                            work.append((o.state, o.pc, cur2))
                        else:
                            res.append((o.state, o.pc, Opaque("skip_while", (cur2, clos, True)), item))
                    else:
                        s2 = o.state.fork()
                        res.append((o.state, o.pc + (b_not(v),), Opaque("skip_while", (cur2, clos, True)), item))
                        work.append((s2, o.pc + (v,), cur2))
            if len(work) + len(res) > i.max_paths:
                raise Undecided("path budget in skip_while")
        return res, others
    if k == "zip" and _has_skip_while(it):
        a_, b_ = it.data
        res, others = [], []
        subs_a, oth = iter_next_multi(i, fr, st, pc, _as_iter(a_))
        others.extend(oth)
        for s1, p1, a2, item_a in subs_a:
            if item_a is None:
                res.append((s1, p1, Opaque("zip", (a2, b_)), None))
                continue
            subs_b, oth2 = iter_next_multi(i, fr, s1, p1, _as_iter(b_))
            others.extend(oth2)
            for s2, p2, b2, item_b in subs_b:
                res.append((s2, p2, Opaque("zip", (a2, b2)), None if item_b is None else Agg("tuple", None, 0, (item_a, item_b))))
        return res, others
    return _old_iter_next_multi_sw(i, fr, st, pc, it)


_old_generic_next_sw = generic_next


def generic_next_sw(i, fr, st, pc, a, t, fn, r):
    it = i.read_ptr(st, a[0])
    if _has_skip_while(it):
        return multi_next(i, fr, st, pc, a, t, fn, r)
    return _old_generic_next_sw(i, fr, st, pc, a, t, fn, r)


for _k, _v in list(TABLE.items()):
    if _v is _old_generic_next_sw:
        TABLE[_k] = generic_next_sw
TABLE.update({
    "std::iter::Iterator::skip_while": it_skip_while,
    "<std::iter::SkipWhile<I, P> as std::iter::Iterator>::next": multi_next,
})
