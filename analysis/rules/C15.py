"""C15 - Esop: XOR semantics, operators, and the Lut -> Esop conversion.

Decided: value is the XOR over all cubes; ^ concatenates; ! appends exactly one constant-one cube;
conversion to Lut tabulates value; is_zero/is_one only for the constants (containers of symbolic
length 0..3 with opaque cube predicates).  Lut -> Esop on a symbolic table (n <= 2 quick, 3 thorough;
every abstract path): each emitted cube is all-positive, below 2^n, strictly increasing (no
duplicate), and the emitted set is exactly the set of non-zero algebraic-normal-form coefficients of
the functions on that path.
"""
from .. import facts as F
from ..harness import *
from ..cubemodel import CubeModel, arg_for, CUBE
from ..sopmodel import *
from .C13 import reduction_rules

LEVEL = "other"


def run(chk):
    facts = F.load("dbg")
    chk.trust("rustc MIR construction; std summaries; opaque cube predicates for the container rules")
    chk.assume("containers analysed for lengths 0..3; Lut -> Esop for n <= %d" % (2 if chk.tier == "quick" else 3))
    C = reduction_rules(chk, facts, ESOP, "xor", "C15.R", "std::ops::BitXor")
    cm = CubeModel(facts)
    env = Env(facts)
    # ------------------------------------------------------------------ Not: append the constant one
    nforms = 0
    for bd, sty, tr in facts.trait_impl_methods("std::ops::Not"):
        base = sty["t"] if sty["k"] == "ref" else sty
        if base.get("path") != ESOP:
            continue
        nforms += 1
        label = "<%s as Not>::not" % sty["s"]
        for names in [["c%d" % j for j in range(L)] for L in (0, 1, 2, 3)] + [["c0", "c0"], ["c0", "c1", "c0"]]:
            L = len(names)
            key = "%s with %d cubes" % (label, L) if len(set(names)) == L else "%s with repeated cubes %s" % (label, names)
            try:
                it = Interp(facts, max_paths=1024)
                install_stubs(it, facts, C.elem)
                st = State()
                v0 = C.mk(st, 4, names)
                outs = it.call_body(bd, [arg_for(bd["sig"]["inputs"][0], v0, st)], st, {})
                v, d = PROVED, ""
                nret = 0
                for o in outs:
                    s_, w_ = pc_status(o.pc)
                    if s_ == "unsat":
                        continue
                    if o.kind != "return" or s_ != "sat":
                        v, d = UNDECIDED, "path not decided"
                        break
                    nret += 1
                    # on this path some cubes are known to be / not to be the constant one
                    ones = {nm for nm in names if w_.get("is_one(%s)" % nm)}
                    def val(nm):
                        return ONE if nm in ones else val_atom(nm, "m")
                    inp = ZERO
                    for nm in names:
                        inp = B.bxor(inp, val(nm))
                    res = ZERO
                    bad = None
                    for c in C.cubes(it, o.state, o.value):
                        nm = elem_name(c)
                        if nm is not None:
                            res = B.bxor(res, val(nm))
                        elif cm.pos(c).val == 0 and cm.neg(c).val == 0:
                            res = B.bxor(res, ONE)
                        else:
                            bad = "the complement contains a constant cube that is not the constant one"
                    if bad:
                        v, d = REFUTED, bad
                        break
                    if res != B.bnot(inp):
                        v, d = REFUTED, "with %s the result denotes %s, the complement is %s" % (("cubes %s constant one" % sorted(ones)) if ones else "no constant-one cube", B.describe(res), B.describe(B.bnot(inp)))
                        break
                if v == PROVED and nret == 0:
                    v, d = UNDECIDED, "no returning path"
            except Undecided as ex:
                v, d = UNDECIDED, ex.cause
            chk.add("C15.N", key, v, d, where=where_of(bd))
    chk.floor("C15.N Not forms", nforms, 2)
    # ------------------------------------------------------------------ Lut -> Esop
    KD = env.kinds["dyn"]
    for bd, sty, tr in facts.trait_impl_methods("std::convert::From"):
        if sty.get("path") != ESOP or len(tr["args"]) < 2:
            continue
        src = tr["args"][1]
        base = src["t"] if src["k"] == "ref" else src
        if base.get("path") != "lut::Lut":
            continue
        label = "<Esop as %s>::from" % tr["s"]
        for n in range(0, (3 if chk.tier == "quick" else 4)):
            key = "%s n=%d" % (label, n)
            try:
                it = Interp(facts, max_paths=1024, max_steps=50000000)
                st = State()
                lut = KD.mk(st, n, sym_words(n, "a"))
                outs = it.call_body(bd, [arg_for(bd["sig"]["inputs"][0], lut, st)], st, {})
                v, d = PROVED, ""
                npaths = 0
                for o in outs:
                    s_, w_ = pc_status(o.pc)
                    if s_ == "unsat":
                        continue
                    if o.kind != "return":
                        v, d = (REFUTED, "panics: %s %s" % (o.info.get("msg"), w_)) if s_ == "sat" else (UNDECIDED, "possible panic")
                        break
                    if s_ != "sat":
                        v, d = UNDECIDED, "path condition not decided"
                        break
                    npaths += 1
                    cubes = C.cubes(it, o.state, o.value)
                    masks = []
                    for c in cubes:
                        p, q = cm.pos(c).val, cm.neg(c).val
                        if p is None or q is None:
                            v, d = UNDECIDED, "symbolic cube"
                            break
                        if q != 0:
                            v, d = REFUTED, "a cube with a negative literal is emitted (neg=%s) for %s" % (hex(q), w_)
                            break
                        if p >> n:
                            v, d = REFUTED, "a cube over variables outside 0..%d is emitted" % n
                            break
                        masks.append(p)
                    if v != PROVED:
                        break
                    if len(masks) != len(set(masks)):
                        v, d = REFUTED, "a cube is emitted twice: %s for %s" % (masks, w_)
                        break
                    if C.num_vars(o.value).val != n:
                        v, d = REFUTED, "result has num_vars %s" % C.num_vars(o.value).val
                        break
                    # algebraic normal form of the function on this path
                    f = [w_.get("a[%d]" % p, 0) for p in range(1 << n)]
                    want = []
                    for S_ in range(1 << n):
                        c = 0
                        for T_ in range(1 << n):
                            if T_ & ~S_ == 0:
                                c ^= f[T_]
                        if c:
                            want.append(S_)
                    # the path condition may leave bits free only if they do not matter; check it pins f
                    free = [p for p in range(1 << n) if "a[%d]" % p not in w_]
                    if free:
                        v, d = UNDECIDED, "path does not determine the function"
                        break
                    if sorted(masks) != want:
                        v, d = REFUTED, "for the function %s the emitted cubes are %s, the Reed-Muller form is %s" % (f, masks, want)
                        break
                if v == PROVED and npaths != 1 << (1 << n):
                    v, d = UNDECIDED, "%d paths for %d functions" % (npaths, 1 << (1 << n))
            except Undecided as ex:
                v, d = UNDECIDED, ex.cause
            chk.add("C15.M", key, v, d, where=where_of(bd), sample=dict(obligation=key, paths=npaths if v == PROVED else None, verdict=v))
