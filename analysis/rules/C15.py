"""C15 - Esop: XOR semantics, operators, and the Lut -> Esop conversion.

Decided: value is the XOR over all cubes; ^ concatenates; ! appends exactly one constant-one cube;
conversion to Lut tabulates value; is_zero/is_one only for the constants (containers of symbolic
length 0..3 with opaque cube predicates).  Lut -> Esop on a symbolic table (n <= 2 quick, 3 thorough;
every abstract path): each emitted cube is all-positive, below 2^n, strictly increasing (no
duplicate), and the emitted set is exactly the set of non-zero algebraic-normal-form coefficients of
the functions on that path.
"""
from .. import facts as F
from ..harness import *
from ..cubemodel import CubeModel, arg_for, CUBE
from ..sopmodel import *
from .C13 import reduction_rules

LEVEL = "other"


def run(chk):
    facts = F.load("dbg")
    chk.trust("rustc MIR construction; std summaries; opaque cube predicates for the container rules")
    chk.assume("containers analysed for lengths 0..3; Lut -> Esop for n <= %d" % (2 if chk.tier == "quick" else 3))
    C = reduction_rules(chk, facts, ESOP, "xor", "C15.R", "std::ops::BitXor")
    cm = CubeModel(facts)
    env = Env(facts)
    # real cubes over a two-variable window: ^ denotes XOR, ! the complement (analysis/window.py)
    from ..window import window_op, op_forms, pick_forms, to_lut_rules
    to_lut_rules(chk, "C15.T", facts, C, "xor", chk.tier)
    for trait, opname, shapes in (("std::ops::BitXor", "xor", ((1, 1), (2, 1), (1, 2), (0, 2), (2, 2))), ("std::ops::Not", "not", ((0,), (1,), (2,), (3,)))):
        for bd, label in pick_forms(op_forms(facts, trait, ESOP), chk.tier):
            for lens in shapes:
                window_op(chk, "C15.W", facts, C, bd, label, lens, "xor", opname, WN=2, sample=(lens in ((2, 1), (2,))))
    # ------------------------------------------------------------------ Not: append the constant one
    nforms = 0
    for bd, sty, tr in facts.trait_impl_methods("std::ops::Not"):
        base = sty["t"] if sty["k"] == "ref" else sty
        if base.get("path") != ESOP:
            continue
        nforms += 1
        label = "<%s as Not>::not" % sty["s"]
        for names in [["c%d" % j for j in range(L)] for L in (0, 1, 2, 3)] + [["c0", "c0"], ["c0", "c1", "c0"]]:
            L = len(names)
            key = "%s with %d cubes" % (label, L) if len(set(names)) == L else "%s with repeated cubes %s" % (label, names)
            try:
                it = Interp(facts, max_paths=1024)
                install_stubs(it, facts, C.elem)
                st = State()
                v0 = C.mk(st, 4, names)
                outs = it.call_body(bd, [arg_for(bd["sig"]["inputs"][0], v0, st)], st, {})
                v, d = PROVED, ""
                nret = 0
                for o in outs:
                    s_, w_ = pc_status(o.pc)
                    if s_ == "unsat":
                        continue
                    if o.kind != "return" or s_ != "sat":
                        v, d = UNDECIDED, "path not decided"
                        break
                    nret += 1
                    # on this path some cubes are known to be / not to be the constant one
                    ones = {nm for nm in names if w_.get("is_one(%s)" % nm)}
                    def val(nm):
                        return ONE if nm in ones else val_atom(nm, "m")
                    inp = ZERO
                    for nm in names:
                        inp = B.bxor(inp, val(nm))
                    res = ZERO
                    bad = None
                    for c in C.cubes(it, o.state, o.value):
                        nm = elem_name(c)
                        if nm is not None:
                            res = B.bxor(res, val(nm))
                        elif cm.pos(c).val == 0 and cm.neg(c).val == 0:
                            res = B.bxor(res, ONE)
                        else:
                            bad = "the complement contains a constant cube that is not the constant one"
                    if bad:
                        v, d = REFUTED, bad
                        break
                    if res != B.bnot(inp):
                        v, d = REFUTED, "with %s the result denotes %s, the complement is %s" % (("cubes %s constant one" % sorted(ones)) if ones else "no constant-one cube", B.describe(res), B.describe(B.bnot(inp)))
                        break
                if v == PROVED and nret == 0:
                    v, d = UNDECIDED, "no returning path"
            except Undecided as ex:
                v, d = UNDECIDED, ex.cause
            chk.add("C15.N", key, v, d, where=where_of(bd))
    chk.floor("C15.N Not forms", nforms, 2)
    # ------------------------------------------------------------------ Lut -> Esop
    KD = env.kinds["dyn"]
    for bd, sty, tr in facts.trait_impl_methods("std::convert::From"):
        if sty.get("path") != ESOP or len(tr["args"]) < 2:
            continue
        src = tr["args"][1]
        base = src["t"] if src["k"] == "ref" else src
        if base.get("path") != "lut::Lut":
            continue
        label = "<Esop as %s>::from" % tr["s"]
        cases = [(n, None, 0) for n in range(0, (3 if chk.tier == "quick" else 4))]
        # larger tables (several 64-bit blocks): a few symbolic table bits at a time, the others 0.  Positions with at
        # most two 0 bits in their index (few supersets -> short runs), plus dense ones (bit 0: every cube is emitted)
        for n in range(3, (9 if chk.tier == "quick" else 11)):
            full_ = (1 << n) - 1
            sparse = sorted({full_ & ~((1 << x) | (1 << y)) for x in range(n) for y in range(n)} | {full_})
            for k_ in range(0, len(sparse), 3):
                cases.append((n, tuple(sparse[k_:k_ + 3]), 0))
            if n <= (8 if chk.tier == "quick" else 9):
                cases.append((n, (0,), 0))
                cases.append((n, (5 & full_, 1 << (n - 1)), 0))
                # dense tables: the same kind of window on a background of ones (a conversion that treats mostly-one
                # tables separately - through the complement, say - is only reached this way)
                for k_ in range(0, len(sparse), 9):
                    cases.append((n, tuple(sparse[k_:k_ + 3]), 1))
                cases.append((n, (0,), 1))
                cases.append((n, (0, full_), 1))
        for n, window, bg in cases:
            key = "%s n=%d" % (label, n) if window is None else "%s n=%d table bits %s symbolic, others %d" % (label, n, list(window), bg)
            try:
                it = Interp(facts, max_paths=1024, max_steps=20000000)     # needs 1.5M today (thorough)
                st = State()
                if window is None:
                    words, support = sym_words(n, "a"), list(range(1 << n))
                else:
                    it.prune = True
                    support = list(window)
                    words = [W(64, bits=[B.atom("a[%d]" % (w_ * 64 + p_)) if (w_ * 64 + p_) in window else (B.ONE if (bg and w_ * 64 + p_ < (1 << n)) else ZERO) for p_ in range(64)]) for w_ in range(table_words(n))]
                lut = KD.mk(st, n, words)
                outs = it.call_body(bd, [arg_for(bd["sig"]["inputs"][0], lut, st)], st, {})
                v, d = PROVED, ""
                npaths = 0
                for o in outs:
                    s_, w_ = pc_status(o.pc)
                    if s_ == "unsat":
                        continue
                    if o.kind != "return":
                        v, d = (REFUTED, "panics: %s %s" % (o.info.get("msg"), w_)) if s_ == "sat" else (UNDECIDED, "possible panic")
                        break
                    if s_ != "sat":
                        v, d = UNDECIDED, "path condition not decided"
                        break
                    npaths += 1
                    cubes = C.cubes(it, o.state, o.value)
                    masks = []
                    for c in cubes:
                        p, q = cm.pos(c).val, cm.neg(c).val
                        if p is None or q is None:
                            v, d = UNDECIDED, "symbolic cube"
                            break
                        if q != 0:
                            v, d = REFUTED, "a cube with a negative literal is emitted (neg=%s) for %s" % (hex(q), w_)
                            break
                        if p >> n:
                            v, d = REFUTED, "a cube over variables outside 0..%d is emitted" % n
                            break
                        masks.append(p)
                    if v != PROVED:
                        break
                    if len(masks) != len(set(masks)):
                        v, d = REFUTED, "a cube is emitted twice: %s for %s" % (masks, w_)
                        break
                    if C.num_vars(o.value).val != n:
                        v, d = REFUTED, "result has num_vars %s" % C.num_vars(o.value).val
                        break
                    # algebraic normal form of the function on this path
                    f = [w_.get("a[%d]" % p, 0) if p in support else bg for p in range(1 << n)]
                    want = []
                    for S_ in range(1 << n):
                        c = 0
                        for T_ in range(1 << n):
                            if T_ & ~S_ == 0:
                                c ^= f[T_]
                        if c:
                            want.append(S_)
                    # the path condition may leave bits free only if they do not matter; check it pins f
                    free = [p for p in support if "a[%d]" % p not in w_]
                    if free:
                        v, d = UNDECIDED, "path does not determine the function"
                        break
                    if sorted(masks) != want:
                        fd = f if n <= 3 else "with true assignments %s" % [p for p in range(1 << n) if f[p]]
                        v, d = REFUTED, "for the function %s the emitted cubes are %s, the Reed-Muller form is %s" % (fd, masks[:12], want[:12])
                        break
                if v == PROVED and npaths != 1 << len(support):
                    v, d = UNDECIDED, "%d paths for %d functions" % (npaths, 1 << len(support))
            except Undecided as ex:
                v, d = UNDECIDED, ex.cause
            chk.add("C15.M", key, v, d, where=where_of(bd), sample=dict(obligation=key, paths=npaths if v == PROVED else None, verdict=v) if window is None else None)
