"""C04 / C05 engine - canonization walks and certificates (path-policy abstract interpretation).

The public p/n/npn_canonization methods are run on a table of symbolic bits.  The data-dependent
comparisons `visited < best` cannot be decided on symbolic tables; instead the analysis follows
*chosen abstract paths*: the outcome of the k-th comparison is fixed by a policy.

  policy "never smaller"  : the walk must terminate normally (C04.N), return the input table
                            unchanged with the identity certificate (C05.I), compare every visited
                            table against the current best in the library's order (C04.W), and the
                            visited tables together with the input must be exactly the orbit of
                            the input under the group (C04.G: each element once or more, nothing
                            outside) - computed on symbolic tables, so it holds for every function.
  policy "smaller at k"   : the returned table is the k-th visited one and the returned
                            (perm, mask) maps the input to it by the formula of the statement
                            (C05.K), for every k (sampled for the largest walks).

Scope: the hard-coded sequences (n <= 6) as far as the walk length allows (see n ranges in the
evidence); the runtime-generated sequences for n >= 7 are folded in the thorough tier for the
shortest walks only.  Minimality itself then follows from "every orbit element is visited and
the strictly smaller one is kept", with the order itself decided by C08.
"""
import itertools
import math

from .. import facts as F
from .. import specs as S
from ..harness import *
from ..absint import new_cell, Arr

LEVEL = "other"


def group_tables(n, which):
    """symbolic tables of all images of the input under the group: dict bits-tuple -> (perm, mask)"""
    out = {}
    perms = list(itertools.permutations(range(n))) if which in ("p", "npn") else [tuple(range(n))]
    masks = range(1 << (n + 1)) if which in ("n", "npn") else [0]
    for perm in perms:
        for mask in masks:
            out[tuple(apply_cert(n, perm, mask))] = (perm, mask)
    return out


def apply_cert(n, perm, mask):
    """g(y) = f(x) xor mask[n], x[perm[i]] = y[i] xor mask[i]; as bit values over atoms a[.]"""
    bits = []
    for y in range(1 << n):
        x = 0
        for i in range(n):
            yi = ((y >> i) & 1) ^ ((mask >> i) & 1)
            x |= yi << perm[i]
        b = B.atom("a[%d]" % x)
        if (mask >> n) & 1:
            b = B.bnot(b)
        bits.append(b)
    return bits + [ZERO] * (64 * table_words(n) - len(bits))


def flat(words):
    out = []
    for w in words:
        out.extend(w.all_bits())
    return out


def extract(env, kind, which, it, o, n):
    """-> (table bits, perm tuple or None, mask int or None)"""
    K = env.kinds[kind]
    r = o.value
    if not isinstance(r, Agg) or r.kind != "tuple":
        raise Undecided("result is %r" % (r,))
    tab = bits_of_table(K.words(it, o.state, r.fields[0]), n)
    perm = mask = None
    rest = list(r.fields[1:])
    if which in ("p", "npn"):
        pv = rest.pop(0)
        if isinstance(pv, Ptr):
            el = it.slice_elems(o.state, pv)
        elif isinstance(pv, Arr):
            el = pv.elems
        else:
            raise Undecided("permutation value %r" % (pv,))
        if any(not (isinstance(x, W) and x.val is not None) for x in el):
            raise Undecided("symbolic permutation")
        perm = tuple(x.val for x in el)
    if which in ("n", "npn"):
        mv = rest.pop(0)
        if not (isinstance(mv, W) and mv.val is not None):
            raise Undecided("symbolic mask")
        mask = mv.val
    return tab, perm, mask


def run_walk(env, kind, which, n, policy):
    K = env.kinds[kind]
    b = K.method({"p": "p_canonization", "n": "n_canonization", "npn": "npn_canonization"}[which])
    # a straight walk takes 60-150 interpreter steps per group element; far more means the paths are splitting
    it = env.interp(max_steps=1000 * group_order(n, which) + 100000, max_paths=2048)
    it.call_hooks = (cmp_kernel_hook(env.facts),)
    it.cmp_policy = policy
    it.cmp_log = []
    st = State()
    p = K.place(st, K.mk(st, n, sym_words(n, "a")))
    outs = it.call_body(b, [p], st, K.env(n))
    return it, outs, b


def group_order(n, which):
    return {"p": math.factorial(n), "n": 1 << (n + 1), "npn": math.factorial(n) * (1 << (n + 1))}[which]


def ranges(tier, prop="C04"):
    if prop == "C05":
        if tier == "quick":
            return {"p": range(0, 6), "n": range(0, 7), "npn": range(0, 4)}
        return {"p": range(0, 7), "n": range(0, 8), "npn": range(0, 5)}
    if tier == "quick":
        return {"p": range(0, 6), "n": range(0, 8), "npn": range(0, 4)}
    return {"p": range(0, 8), "n": range(0, 9), "npn": range(0, 5)}


def analyse(chk, prop):
    """prop in ('C04', 'C05'): which obligations to record"""
    facts = F.load("dbg")
    env = Env(facts)
    chk.trust("rustc MIR construction and constant evaluation (FLIPS/SWAPS tables are read from the compiler); std summaries")
    chk.trust("the library order on tables is decided by C08; minimality = every orbit element visited + strictly smaller kept")
    chk.assume("n >= 7 uses sequences generated at run time; they are outside the quick tier")
    rg = ranges(chk.tier, prop)
    for kind in ("dyn", "static"):
        K = env.kinds[kind]
        for which in ("p", "n", "npn"):
            mname = {"p": "p_canonization", "n": "n_canonization", "npn": "npn_canonization"}[which]
            for n in rg[which]:
                base = "%s::%s n=%d" % (K.adt, mname, n)
                ident = tuple(apply_cert(n, tuple(range(n)), 0))
                try:
                    it, outs, b = run_walk(env, kind, which, n, lambda k: False)
                except Undecided as e:
                    chk.undecided(prop + ".walk", base, e.cause)
                    continue
                o, v, d = single_return(outs)
                if prop == "C04":
                    chk.add("C04.N", base + " terminates normally", v if o is None else PROVED, d, where=where_of(b))
                if o is None:
                    if prop == "C05":
                        chk.add("C05.I", base + " identity certificate", UNDECIDED if v != REFUTED else REFUTED, d, where=where_of(b))
                    continue
                try:
                    tab, perm, mask = extract(env, kind, which, it, o, n)
                except Undecided as e:
                    chk.undecided(prop + ".walk", base, e.cause)
                    continue
                log = it.cmp_log
                M = len(log)
                visited = [tuple(flat(l)) for l, r in log]
                if prop == "C04":
                    # C04.W: every comparison is (visited table, best so far) in the library order (MSW first)
                    okw, dw = PROVED, ""
                    rev_ident = tuple(flat(list(reversed(sym_words(n, "a")))))
                    fwd_ident = tuple(flat(sym_words(n, "a")))
                    for k, (l, r) in enumerate(log):
                        if tuple(flat(r)) != rev_ident:
                            if table_words(n) > 1 and tuple(flat(r)) == fwd_ident:
                                okw, dw = REFUTED, "the walk compares tables least-significant word first, not in the library's order (most significant word first)"
                            else:
                                okw, dw = REFUTED, "comparison %d does not compare against the best table so far" % k
                            break
                    chk.add("C04.W", base + " compares each visited table with the best", okw, dw, where=where_of(b))
                    # C04.G: visited + input == orbit
                    G = group_tables(n, which)
                    words_rev = lambda bits: bits  # visited tables are logged MSW first; for one word identical
                    vis = set()
                    T = table_words(n)
                    for vb in visited:
                        # undo the most-significant-word-first order of the comparison views
                        ws = [vb[i * 64:(i + 1) * 64] for i in range(T)]
                        vis.add(tuple(x for w in reversed(ws) for x in w))
                    vis.add(ident)
                    missing = [g for g in G if g not in vis]
                    outside = [x for x in vis if x not in G]
                    if any(b_ is None for x in vis for b_ in x):
                        chk.undecided("C04.G", base + " orbit coverage", "visited tables contain top")
                    elif outside:
                        chk.refuted("C04.G", base + " orbit coverage", "the walk visits a table that is not an image of the input under the group (%d such)" % len(outside), where=where_of(b))
                    elif missing:
                        pm = G[missing[0]]
                        chk.refuted("C04.G", base + " orbit coverage", "%d of %d group elements are never visited, e.g. perm=%s mask=%s" % (len(missing), len(G), list(pm[0]), bin(pm[1])), where=where_of(b))
                    else:
                        chk.proved("C04.G", base + " orbit coverage", "%d comparisons cover all %d group elements" % (M, len(G)),
                                   sample=dict(obligation=base, comparisons=M, group_order=len(G)) if n in (3, 4) else None)
                    # result unchanged when nothing is smaller
                    v2, d2 = compare_bits(tab, list(ident), o.pc)
                    chk.add("C04.R", base + " canonical input is returned unchanged", v2, d2, where=where_of(b))
                if prop == "C05":
                    want_perm = tuple(range(n)) if which in ("p", "npn") else None
                    want_mask = 0 if which in ("n", "npn") else None
                    if perm == want_perm and mask == want_mask:
                        chk.proved("C05.I", base + " identity certificate")
                    else:
                        chk.refuted("C05.I", base + " identity certificate", "a function that is already its own representative gets perm=%s mask=%s instead of the identity" % (list(perm) if perm is not None else None, mask), where=where_of(b))
                    # C05.K: smaller exactly at comparison k
                    ks = list(range(M))
                    if M > 64 and chk.tier == "quick":
                        ks = sorted(set(list(range(0, M, max(1, M // 32))) + [0, 1, 2, M - 3, M - 2, M - 1]))
                    elif M > 256:
                        ks = sorted(set(list(range(0, M, max(1, M // 128))) + [0, 1, 2, M - 3, M - 2, M - 1]))
                    bad = None
                    und = None
                    checked = 0
                    T = table_words(n)
                    vis_tabs = []
                    first_seen = {}
                    for j, vb in enumerate(visited):
                        ws = [vb[i * 64:(i + 1) * 64] for i in range(T)]
                        tb = tuple(x for w in reversed(ws) for x in w)
                        vis_tabs.append(tb)
                        first_seen.setdefault(tb, j)
                    for k in ks:
                        try:
                            it2, outs2, _ = run_walk(env, kind, which, n, lambda j, k=k: j == k)
                            o2, v2, d2 = single_return(outs2)
                            if o2 is None:
                                if v2 == REFUTED:
                                    bad = "with the %d-th visited table as the minimum: %s" % (k, d2)
                                else:
                                    und = d2
                                break
                            tab2, perm2, mask2 = extract(env, kind, which, it2, o2, n)
                        except Undecided as e:
                            und = e.cause
                            break
                        vk = list(vis_tabs[k])
                        if first_seen[vis_tabs[k]] < k or vis_tabs[k] == ident:
                            continue  # this table was seen before: it can never be strictly smaller than the best
                        if tab2 != vk:
                            bad = "when the %d-th visited table is the strict minimum the returned table is not that table" % k
                            break
                        if (which in ("p", "npn") and sorted(perm2) != list(range(n))) or (mask2 is not None and mask2 >> (n + 1)) or (which == "p" and False):
                            bad = "certificate out of range for the %d-th visited table: perm=%s mask=%s" % (k, perm2, mask2)
                            break
                        cert = apply_cert(n, perm2 if perm2 is not None else tuple(range(n)), mask2 or 0)
                        if cert != vk:
                            bad = "certificate perm=%s mask=%s does not map the input to the %d-th visited table (which is returned when it is the minimum)" % (list(perm2) if perm2 is not None else None, mask2, k)
                            break
                        checked += 1
                    if bad:
                        chk.refuted("C05.K", base + " certificates", bad, where=where_of(b))
                    elif und:
                        chk.undecided("C05.K", base + " certificates", und)
                    else:
                        chk.proved("C05.K", base + " certificates", "%d of %d comparison indices" % (checked, M),
                                   sample=dict(obligation=base, indices_checked=checked, comparisons=M) if n == 3 else None)
    chk.notes["n_ranges"] = {k: [min(v), max(v)] for k, v in rg.items()}
    chk.notes["explanation"] = "path-policy abstract interpretation of the canonization walks on symbolic tables (orbit coverage, compare-and-keep discipline, certificates for every comparison index)"


class _Stop(Exception):
    pass


def capture_sequences(env, kind, which, n):
    """run the public method and record the &[u8] sequences handed to the walk and to the decoder
    (the walk itself is skipped); -> (walk sequences, decoder sequences)"""
    K = env.kinds[kind]
    b = K.method({"p": "p_canonization", "n": "n_canonization", "npn": "npn_canonization"}[which])
    it = env.interp(max_steps=400000000)
    it.memo_pure = True
    got = []

    def is_u8_slice(ty):
        return ty["k"] == "ref" and ty["t"]["k"] == "slice" and ty["t"]["t"].get("w") == 8 and not ty["mut"]

    def hook(interp, body, args, st, pc):
        ins = (body.get("sig") or {}).get("inputs", [])
        if not any(is_u8_slice(ty) for ty in ins):
            return None
        seqs = []
        for ty, a in zip(ins, args):
            if is_u8_slice(ty):
                vals = [x.val for x in interp.slice_elems(st, a)]
                if any(v is None for v in vals):
                    raise Undecided("symbolic sequence")
                seqs.append(vals)
        has_table = any(ty["k"] == "ref" and ty["mut"] and ty["t"]["k"] == "slice" and ty["t"]["t"].get("w") == 64 for ty in ins)
        got.append(("walk" if has_table else "decoder", seqs))
        if has_table:
            out = body["sig"]["output"]
            if out["k"] == "uint":
                return interp.ret(st, pc, wconst(out["w"], 0))
            return None
        raise _Stop()
    it.call_hook = hook
    st = State()
    p = K.place(st, K.mk(st, n, sym_words(n, "a")))
    capture_sequences.last_panic = None
    try:
        outs_ = it.call_body(b, [p], st, K.env(n))
        # the method ended before reaching the decoder: a panic on every path is a definite failure of the method
        if outs_ and all(o.kind == "panic" for o in outs_) and all(pc_status(o.pc)[0] == "sat" for o in outs_):
            capture_sequences.last_panic = "%s in %s" % (outs_[0].info.get("msg"), outs_[0].info.get("fn"))
    except _Stop:
        pass
    walk = [s for k, s in got if k == "walk"]
    dec = [s for k, s in got if k == "decoder"]
    return (walk[0] if walk else None), (dec[0] if dec else None), b


def check_cycle(seq, n):
    """closed covering cycle of flips (length 2^n) or adjacent swaps (length n!)"""
    if len(seq) in ((1 << n), (1 << n) - 1) and n >= 1 and len(seq) not in (math.factorial(n), math.factorial(n) - 1):
        cur, seen = 0, set()
        for f in seq:
            if f >= n:
                return REFUTED, "flip index %d out of range" % f
            cur ^= 1 << f
            if cur in seen:
                return REFUTED, "polarity mask %s visited twice" % bin(cur)
            seen.add(cur)
        if cur != 0 or len(seen) != 1 << n:
            return REFUTED, "flip sequence of length %d is not a closed cycle through all %d polarity masks (it ends at mask %s)" % (len(seq), 1 << n, bin(cur))
        return PROVED, "gray"
    cur, seen = list(range(n)), set()
    for s_ in seq:
        if s_ + 1 >= n:
            return REFUTED, "swap index %d out of range" % s_
        cur[s_], cur[s_ + 1] = cur[s_ + 1], cur[s_]
        tpl = tuple(cur)
        if tpl in seen:
            return REFUTED, "permutation visited twice"
        seen.add(tpl)
    if cur != list(range(n)) or len(seen) != math.factorial(n):
        return REFUTED, "swap sequence of length %d is not a closed cycle through all %d permutations (it ends at %s after %d distinct ones)" % (len(seq), math.factorial(n), cur, len(seen))
    return PROVED, "sjt"


def generated(chk, rule="C04.Q"):
    """C04.Q / C05.Q: the sequences generated at run time for n >= 7 (folded: pure functions of n) are closed
    covering cycles and the same sequences reach walk and decoder"""
    facts = F.load("dbg")
    env = Env(facts)
    ns = (7,) if chk.tier == "quick" else (7, 8)
    for kind in ("dyn", "static"):
        K = env.kinds[kind]
        for which in ("p", "n", "npn"):
            # the flip sequences are short (2^n): every size; the swap sequences (n!) only where affordable
            for n in (tuple(range(7, 13)) if which == "n" else ns):
                key = "%s::%s_canonization n=%d generated sequences" % (K.adt, which, n)
                try:
                    walk, dec, b = capture_sequences(env, kind, which, n)
                    if (walk is None or dec is None) and capture_sequences.last_panic:
                        v, d = REFUTED, "panics on every table of %d variables before the walk/decoder is reached (%s)" % (n, capture_sequences.last_panic)
                    elif walk is None or dec is None:
                        v, d = UNDECIDED, "walk/decoder calls not recognised"
                    elif walk != dec:
                        v, d = REFUTED, "the decoder replays different sequences than the walk used"
                    else:
                        v, d = PROVED, ""
                        kinds = []
                        for s_ in walk:
                            v, d = check_cycle(s_, n)
                            if v != PROVED:
                                break
                            kinds.append(d)
                        want = {"p": ["sjt"], "n": ["gray"], "npn": ["sjt", "gray"]}[which]
                        if v == PROVED and sorted(kinds) != sorted(want):
                            v, d = REFUTED, "sequences %s, expected %s" % (kinds, want)
                        elif v == PROVED:
                            d = "lengths %s" % [len(s_) for s_ in walk]
                except Undecided as e:
                    v, d = UNDECIDED, e.cause
                chk.add(rule, key, v, d, where=where_of(K.method("%s_canonization" % which)))


def step_kernels(chk, rule="C04.S"):
    """C04.S: the walks are analysed in full only for small n.  For n = 7, 8 (9, 10 thorough) their steps are checked
    separately: every local function the walk bodies call with (num_vars, &mut [u64], index) - the step kernels - is
    run on a symbolic table for every valid index and must be the group generator it is for small n (adjacent
    transposition of the variables i, i+1, or complement of the variable i).  Together with C04.Q (the sequences are
    closed covering cycles) this is what the orbit argument needs at the sizes where the walk itself is not run."""
    from .. import specs as S_
    facts = F.load("dbg")
    env = Env(facts)

    def is_tab(ty):
        return ty["k"] == "ref" and ty["mut"] and ty["t"]["k"] == "slice" and ty["t"]["t"].get("w") == 64

    def is_seq(ty):
        return ty["k"] == "ref" and not ty["mut"] and ty["t"]["k"] == "slice" and ty["t"]["t"].get("w") == 8
    # every local body reachable from the public canonization methods (calls, closures, function items)
    todo = []
    for kind in ("dyn", "static"):
        for nm in ("p_canonization", "n_canonization", "npn_canonization"):
            b0 = env.kinds[kind].methods.get(nm)
            if b0 is not None:
                todo.append(b0)
    seen, kernels = set(), {}
    by_key = {b["key"]: b for b in facts.lib_bodies()}
    while todo:
        wb = todo.pop()
        if wb["key"] in seen:
            continue
        seen.add(wb["key"])
        ins = (wb.get("sig") or {}).get("inputs") or []
        if len(ins) == 3 and ins[0]["k"] == "uint" and is_tab(ins[1]) and ins[2]["k"] == "uint" and wb["sig"]["output"]["s"] == "()":
            kernels[wb["key"]] = wb
            continue   # a step kernel: what it calls is its own business (checked by running it)
        refs = set()

        def scan(x):
            if isinstance(x, dict):
                if x.get("key") in by_key:
                    refs.add(x["key"])
                for v_ in x.values():
                    scan(v_)
            elif isinstance(x, list):
                for v_ in x:
                    scan(v_)
        for blk in wb["mir"]["blocks"]:
            scan(blk["term"].get("func"))
            scan(blk["term"].get("args"))
            for st_ in blk["stmts"]:
                if st_["k"] == "assign":
                    scan(st_["rv"])
        for k_ in refs:
            todo.append(by_key[k_])
    if len(kernels) < 2:
        chk.undecided(rule, "step kernels of the canonization walks", "%d function(s) of shape (num_vars, &mut [u64], index) reachable from the walks: the steps are not taken through such kernels" % len(kernels))
        return
    chk.notes["step_kernels"] = sorted(b_["path"] for b_ in kernels.values())

    def run_kernel(cb, n, i):
        it = env.interp()
        st = State()
        cell = new_cell()
        words = sym_words(n, "a")
        st.mem[cell] = Arr(words)
        outs = it.call_body(cb, [usize(n), Ptr(cell, (), (0, len(words))), usize(i)], st, {})
        o, v, d = single_return(outs)
        if o is None:
            return None, v, d
        return bits_of_table(list(it.slice_elems(o.state, Ptr(cell, (), (0, len(words))))), n), o.pc, ""
    roles = {"swap_adjacent": lambda n, i: S_.swap(n, i, i + 1) if i + 1 < n else None, "flip": lambda n, i: S_.flip(n, i)}
    for key_, cb in sorted(kernels.items()):
        # role at a small size (where the whole walk is analysed): the generator it agrees with on every index
        role = None
        try:
            for rname, spec in roles.items():
                ok = True
                for i in range(4):
                    exp = spec(4, i)
                    if exp is None:
                        continue
                    bits, pc, _ = run_kernel(cb, 4, i)
                    if bits is None or compare_bits(bits, exp, pc)[0] != PROVED:
                        ok = False
                        break
                if ok:
                    role = rname
                    break
        except Undecided:
            role = None
        if role is None:
            chk.undecided(rule, "role of step kernel %s" % cb["path"], "neither adjacent transposition nor complement of a variable at n = 4")
            continue
        for n in ((7, 8) if chk.tier == "quick" else (7, 8, 9, 10)):
            for i in range(n):
                exp = roles[role](n, i)
                if exp is None:
                    continue
                key = "%s is the %s generator n=%d i=%d" % (cb["path"], role, n, i)
                try:
                    bits, pc, d = run_kernel(cb, n, i)
                    if bits is None:
                        v = pc
                    else:
                        v, d = compare_bits(bits, exp, pc)
                        d = d and "the step the walk applies is not the %s of variable %d: %s" % ("transposition with its neighbour" if role == "swap_adjacent" else "complement", i, d)
                except Undecided as e:
                    v, d = UNDECIDED, e.cause
                chk.add(rule, key, v, d, where=where_of(cb))


def _apply_concrete(n, f, perm, mask):
    """the table of g(y) = f(x) xor mask[n], x[perm[i]] = y[i] xor mask[i], on concrete integers"""
    g = 0
    for y in range(1 << n):
        x = 0
        for i in range(n):
            x |= (((y >> i) & 1) ^ ((mask >> i) & 1)) << perm[i]
        g |= (((f >> x) & 1) ^ ((mask >> n) & 1)) << y
    return g


CANON_METHOD = {"p": "p_canonization", "n": "n_canonization", "npn": "npn_canonization"}


def canon_plans(tier):
    plans = []
    for which in ("p", "n", "npn"):
        for n in (0, 1, 2, 3):
            if which == "npn" and n == 3 and tier == "quick":
                plans.append((which, n, (0, 1, 2, 4, 6, 7)))   # 64 of the 256 functions; all of them in the thorough tier
            else:
                plans.append((which, n, tuple(range(1 << n))))
    plans += [("p", 4, (1, 2, 4, 6, 8, 9, 12, 15)), ("n", 4, (0, 3, 5, 6, 9, 10, 12, 15)), ("n", 4, (1, 2, 4, 7, 8, 11, 13, 14)),
              ("n", 7, (2, 64, 65, 127)), ("n", 7, (0, 63, 66, 126))]
    # two-block tables with the run-time generators replaced by a short closed cycle over the variables 4, 5, 6
    # (the walk then visits the 6 permutations of those three inputs, and the output polarity for npn)
    sub = dict(swaps=[5, 4, 5, 4, 5, 4], flips=[])
    plans += [("npn", 7, (48, 80, 96, 1), sub), ("p", 7, (48, 80, 96, 17), sub), ("npn", 7, (16, 32, 64, 112), sub)]
    if tier == "thorough":
        plans += [("npn", 4, (1, 2, 4, 7, 8, 14)), ("p", 5, (1, 2, 4, 8, 16, 31)), ("n", 8, (3, 64, 130, 255)), ("npn", 8, (48, 80, 96, 160, 192), sub)]
    return [pl if len(pl) == 4 else pl + (None,) for pl in plans]


_canon_eval_cache = {}


def _generator_stubs(env, it, stub):
    """replace the run-time sequence generators (local fn(usize, bool) -> Vec<u8>) by short fixed sequences: the
    public methods then walk a small subgroup, which makes multi-block sizes affordable"""
    from ..absint import Outcome
    for gb in env.facts.lib_bodies():
        sig = gb.get("sig") or {}
        ins = sig.get("inputs") or []
        if not (len(ins) == 2 and ins[0]["k"] == "uint" and ins[1]["k"] == "bool" and "Vec<u8>" in sig["output"].get("s", "")):
            continue
        it0 = env.interp(max_steps=2000000)
        outs0 = it0.call_body(gb, [usize(3), wbool(True)], State(), {})
        if len(outs0) != 1 or outs0[0].kind != "return":
            raise Undecided("generator %s not evaluated" % gb["path"])
        ln = it0.slice_len(outs0[0].state, outs0[0].value)
        role = "swaps" if ln == 6 else ("flips" if ln == 8 else None)
        if role is None:
            raise Undecided("generator %s not recognised" % gb["path"])
        seq = stub[role]

        def f(interp, fr, args, st, pc, t, seq=seq):
            cell = new_cell()
            st.mem[cell] = Arr([wconst(8, x) for x in seq])
            return [Outcome("return", st, pc, Ptr(cell, (), (0, len(seq)), "vec"))]
        it.opaque_fns[gb["key"]] = f


def canon_eval(env, kind, which, n, window, stub=None):
    """the public canonization method in window mode on a table whose bits `window` are symbolic (0 elsewhere):
    -> {choice index r: ('value', table int, perm or None, mask or None) | ('panic', msg)}  (every choice exactly once)"""
    from ..harness import Space
    ck = (id(env.facts), kind, which, n, window, repr(stub))
    if ck in _canon_eval_cache:
        return _canon_eval_cache[ck]
    K = env.kinds[kind]
    b = K.method(CANON_METHOD[which])
    names = ["a[%d]" % p_ for p_ in window]
    space = Space(names)
    it = env.interp(max_paths=20000)
    it.max_steps = 60000000      # needs 0.6M in the quick tier
    it.prune = True
    it.cmp_split = True
    it.split_all = True
    it.memo_pure = True
    it.space = space
    if stub is not None:
        _generator_stubs(env, it, stub)
    st = State()
    words = [W(64, bits=[B.atom("a[%d]" % (w_ * 64 + p_)) if (w_ * 64 + p_) in window else ZERO for p_ in range(64)]) for w_ in range(table_words(n))]
    pl = K.place(st, K.mk(st, n, words))
    with space:
        outs = it.call_body(b, [pl], st, K.env(n))
    res = {}
    for o in outs:
        m_ = space.pc_mask(o.pc)
        if m_ is None:
            raise Undecided("path condition with top")
        if not m_:
            continue
        if o.kind == "return":
            tab, perm, mask = extract(env, kind, which, it, o, n)
        while m_:
            low = m_ & -m_
            r_ = low.bit_length() - 1
            m_ ^= low
            if r_ in res:
                raise Undecided("two paths enabled for one table")
            if o.kind != "return":
                res[r_] = ("panic", o.info.get("msg"))
                continue
            asg = {B.ATOMS.get(nm): (r_ >> j) & 1 for j, nm in enumerate(names)}
            got = 0
            for k_, bt in enumerate(tab):
                if bt is None:
                    raise Undecided("result bit with top")
                got |= B.eval_bit(bt, asg) << k_
            res[r_] = ("value", got, perm, mask)
    if len(res) != 1 << len(window):
        raise Undecided("paths cover %d of %d tables" % (len(res), 1 << len(window)))
    _canon_eval_cache[ck] = res
    return res


def canon_windows(chk, prop):
    """C04.X / C05.X: the public canonization methods in window mode (all paths, exact conditions) on tables with at
    most 8 symbolic bits: every function of n <= 3 variables, windows of 8 table bits at n = 4, and 4 table bits of
    a two-block table (n = 7, N group).  The summary is evaluated on every choice of the bits and compared with the
    definition computed by brute force over the group: the returned table is the smallest image of f (C04), the returned
    (perm, mask) is in range and maps f to the returned table by the statement's formula (C05).  This is independent of
    how the walk is organised (comparison helpers, skipped rounds, ...)."""
    facts = F.load("dbg")
    env = Env(facts)
    rule = prop + ".X"
    for kind in ("dyn", "static"):
        K = env.kinds[kind]
        for which, n, window, stub in canon_plans(chk.tier):
            b = K.method(CANON_METHOD[which])
            key = "%s::%s_canonization n=%d, table bits %s symbolic%s" % (K.adt, which, n, "all" if len(window) == 1 << n else list(window),
                                                                          ", generators replaced by the cycle %s" % stub["swaps"] if stub else "")
            try:
                res = canon_eval(env, kind, which, n, window, stub)
                perms = list(itertools.permutations(range(n))) if which in ("p", "npn") else [tuple(range(n))]
                masks = list(range(1 << (n + 1))) if which in ("n", "npn") else [0]
                if stub is not None:
                    # the subgroup the short cycle generates (adjacent transpositions), output polarity only
                    gens = sorted(set(stub["swaps"]))
                    seenp = {tuple(range(n))}
                    todo_ = [tuple(range(n))]
                    while todo_:
                        pm_ = todo_.pop()
                        for g_ in gens:
                            q_ = list(pm_)
                            q_[g_], q_[g_ + 1] = q_[g_ + 1], q_[g_]
                            if tuple(q_) not in seenp:
                                seenp.add(tuple(q_))
                                todo_.append(tuple(q_))
                    perms = sorted(seenp)
                    masks = [0, 1 << n] if which == "npn" else [0]
                v, d = PROVED, ""
                for r_ in range(1 << len(window)):
                    f = sum(((r_ >> j) & 1) << p_ for j, p_ in enumerate(window))
                    x = res[r_]
                    if x[0] == "panic":
                        v, d = REFUTED, "panics (%s) for the table %#x" % (x[1], f)
                        break
                    _, got, perm, mask = x
                    if prop == "C04":
                        best = min(_apply_concrete(n, f, pm, mk) for pm in perms for mk in masks)
                        if got != best:
                            v, d = REFUTED, "for the table %#x the representative returned is %#x, the smallest table in its %s orbit%s is %#x" % (f, got, which.upper(), " under the walked subgroup" if stub else "", best)
                            break
                    else:
                        pm = perm if perm is not None else tuple(range(n))
                        mk = mask if mask is not None else 0
                        if sorted(pm) != list(range(n)) or mk >> (n + 1):
                            v, d = REFUTED, "for the table %#x the certificate perm=%s mask=%#x is out of range" % (f, list(pm), mk)
                            break
                        if _apply_concrete(n, f, pm, mk) != got:
                            v, d = REFUTED, "for the table %#x the certificate perm=%s mask=%#x yields %#x, not the returned table %#x" % (f, list(pm), mk, _apply_concrete(n, f, pm, mk), got)
                            break
            except Undecided as e:
                v, d = UNDECIDED, e.cause
            chk.add(rule, key, v, d, where=where_of(b))


def run(chk):
    analyse(chk, "C04")
    canon_windows(chk, "C04")
    generated(chk)
    step_kernels(chk)
    # C04.T: constant sequences are closed cycles (table predicates, E5)
    facts = F.load("dbg")
    tables(chk, facts)
    from ..history import history_rule
    history_rule(chk, "C04.H", F.load("dbg"))


def tables(chk, facts):
    """predicates on every nested u8 constant table of the canonization module that the walks index by n"""
    cs = [c for c in facts.raw["consts"] if c["ty"]["s"].replace("'static ", "") in ("&[&[u8]]",)]
    found = 0
    for c in cs:
        val = c["val"]
        if not isinstance(val, list) or len(val) < 2:
            continue
        # classify by content: flips (entries < n, length 2^n) or swaps (entries < n-1, length n!)
        is_flips = all(len(val[n]) == (0 if n == 0 else 1 << n) for n in range(len(val)))
        is_swaps = all(len(val[n]) == (0 if n < 2 else math.factorial(n)) for n in range(len(val)))
        if is_flips:
            found += 1
            for n in range(len(val)):
                seq = val[n]
                key = "%s[%d] closed Gray cycle" % (c["path"], n)
                cur, seen, ok, d = 0, set(), True, ""
                for f in seq:
                    if f >= n:
                        ok, d = False, "entry %d >= %d" % (f, n)
                        break
                    cur ^= 1 << f
                    if cur in seen:
                        ok, d = False, "polarity mask %s visited twice" % bin(cur)
                        break
                    seen.add(cur)
                if ok and n >= 1 and (cur != 0 or len(seen) != 1 << n):
                    ok, d = False, "cycle does not return to the start after visiting all %d masks" % (1 << n)
                chk.add("C04.T", key, PROVED if ok else REFUTED, d)
        elif is_swaps:
            found += 1
            for n in range(len(val)):
                seq = val[n]
                key = "%s[%d] closed adjacent-transposition cycle" % (c["path"], n)
                cur, seen, ok, d = list(range(n)), set(), True, ""
                for s_ in seq:
                    if s_ + 1 >= n:
                        ok, d = False, "entry %d out of range for %d variables" % (s_, n)
                        break
                    cur[s_], cur[s_ + 1] = cur[s_ + 1], cur[s_]
                    t = tuple(cur)
                    if t in seen:
                        ok, d = False, "permutation %s visited twice" % (t,)
                        break
                    seen.add(t)
                if ok and n >= 2 and (cur != list(range(n)) or len(seen) != math.factorial(n)):
                    ok, d = False, "cycle does not return to the identity after visiting all %d permutations" % math.factorial(n)
                chk.add("C04.T", key, PROVED if ok else REFUTED, d)
    if found < 2:
        chk.undecided("C04.T", "constant sequence tables", "flip/swap tables not recognised (%d found)" % found)
