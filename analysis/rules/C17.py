"""C17 - invalid indices and size mismatches panic identically in every build profile.

C17.A  (invalid => panic) for every public method of Lut/StaticLut with a variable-index,
       assignment-index or block-slice parameter, every n in 0..=8 and a partition of invalid
       values (n, n+1, 5/6/7, 31/32, 63/64/65, n+70, usize::MAX): under BOTH configurations
       (debug-assertions+overflow-checks on / off) no path returns.  A returning path with a
       satisfiable condition is the refutation (it names method, value and configuration).
C17.S  size-mismatched operands (dynamic Lut): every binary form panics in both configurations.
C17.B  (valid => same result, no panic) for the same methods on valid arguments the abstract
       results under both configurations are identical and neither has a feasible panic path.
"""
import itertools

from .. import facts as F
from .. import specs as S
from .. import api
from ..harness import *
from .C01 import discover_forms
from .C02 import build_by_type, find_tables

LEVEL = "proof"
SCOPE = ("var", "var_adj", "bit", "blocks")
M64 = (1 << 64) - 1


def build_args(env, kind, b, cls, combo, n, st, n_other=None):
    K = env.kinds[kind]
    args, muts, names = [], [], ["a", "b"]
    ci = 0
    ti = 0
    for ty in b["sig"]["inputs"]:
        if is_table_ty(ty, K.adt) or (ty["k"] == "ref" and is_table_ty(ty["t"], K.adt)):
            nn = n if (ti == 0 or n_other is None) else n_other
            v, m = build_by_type(env, kind, ty, nn, st, names, 1)
            args.append(v)
            muts += m
            ti += 1
        else:
            c = cls[ci]
            x = combo[ci]
            if c == "blocks" and isinstance(x, tuple):
                from ..absint import new_cell
                cell = new_cell()
                words = [watoms(64, "blk%d" % w) for w in range(x[1])]
                st.mem[cell] = Arr(words)
                args.append(Ptr(cell, (), (0, x[1])))
            else:
                args.append(api.build_value(c, x, n, st))
            ci += 1
    return args, muts


def feasible_returns(outs):
    out = []
    for o in returns(outs):
        s, w = pc_status(o.pc)
        if s != "unsat":
            out.append((o, s, w))
    return out


def run(chk):
    fdbg, frel = F.load("dbg"), F.load("rel")
    envs = {"dbg": Env(fdbg), "rel": Env(frel)}
    nmax = 8 if chk.tier == "quick" else 10
    chk.trust("rustc MIR construction for both configurations (-Cdebug-assertions/-Coverflow-checks on and off); std summaries (analysis/stdmodel.py)")
    chk.assume("StaticLut operands of different N are rejected by the type checker (compile-fail witness W3, thorough tier of C10)")
    if frel.raw["debug_assertions"] or frel.raw["overflow_checks"] or not fdbg.raw["debug_assertions"]:
        chk.undecided("C17.cfg", "configurations", "fact files do not have the expected build profiles")
    methods_in_scope = 0
    for kind in ("dyn", "static"):
        K = envs["dbg"].kinds[kind]
        for name, b in sorted(K.methods.items()):
            if b["vis"] != "pub":
                continue
            cls = api.classes(kind, name)
            if cls is None:
                has_idx = any(t["k"] == "uint" for t in b["sig"]["inputs"])
                if has_idx:
                    chk.undecided("C17.A", "unclassified-api %s::%s" % (K.adt, name), "public method with an integer parameter is not in analysis/api.py")
                continue
            if not any(c in SCOPE for c in cls):
                continue
            methods_in_scope += 1
            brel = envs["rel"].kinds[kind].methods.get(name)
            for n in range(0, nmax + 1):
                if chk.tier == "quick" and n in (1, 4, 7) and name not in ("cofactors", "from_cofactors"):
                    pass
                # ------------------------------------------------ C17.A invalid values
                for pi, c in enumerate(cls):
                    if c not in SCOPE:
                        continue
                    if c == "blocks":
                        T = table_words(n)
                        bad = [("len", l) for l in sorted({0, T - 1, T + 1, 2 * T}) if l != T and l >= 0]
                    else:
                        bad = api.invalid_values(c, n)
                        if chk.tier == "quick":
                            bad = [x for k_, x in enumerate(bad) if k_ < 3 or x in (63, 64, M64) or x == n + 70]
                    for x in bad:
                        combo = []
                        for pj, cj in enumerate(cls):
                            if pj == pi:
                                combo.append(x)
                            else:
                                vv = api.valid_values(cj, n)
                                combo.append(vv[0] if vv else (api.invalid_values(cj, n) or [0])[0])
                        xs = "usize::MAX" if x == M64 else (("len=%d" % x[1]) if isinstance(x, tuple) else str(x))
                        for cfg in ("rel", "dbg"):
                            env = envs[cfg]
                            body = env.kinds[kind].methods.get(name)
                            key = "%s::%s n=%d %s#%d=%s [%s]" % (K.adt, name, n, c, pi, xs, cfg)
                            try:
                                it = env.interp()
                                st = State()
                                args, muts = build_args(env, kind, body, cls, combo, n, st)
                                outs = it.call_body(body, args, st, env.kinds[kind].env(n))
                                fr = feasible_returns(outs)
                                if not fr:
                                    v, d = PROVED, ""
                                else:
                                    o, s, w = fr[0]
                                    if s == "sat":
                                        v, d = REFUTED, "returns a value for the invalid %s %s (configuration %s)%s" % (c, xs, cfg, " under %s" % w if w else "")
                                    else:
                                        v, d = UNDECIDED, "possible return: %s" % w
                            except Undecided as e:
                                v, d = UNDECIDED, e.cause
                            chk.add("C17.A", key, v, d, where=where_of(body),
                                    sample=dict(obligation=key, verdict=v) if len(chk.samples) < 6 and x == 64 else None)
                # ------------------------------------------------ C17.B valid values
                vals = [api.valid_values(c, n) for c in cls]
                for combo in itertools.product(*vals):
                    if name in ("swap", "swap_inplace") and n > 3 and chk.tier == "quick" and (combo[-1] + combo[-2]) % 3:
                        continue
                    key = "%s::%s n=%d%s" % (K.adt, name, n, "".join(" %s=%s" % (c, x) for c, x in zip(cls, combo) if c != "n"))
                    res = {}
                    v, d = PROVED, ""
                    try:
                        for cfg in ("dbg", "rel"):
                            env = envs[cfg]
                            body = env.kinds[kind].methods.get(name)
                            it = env.interp()
                            st = State()
                            args, muts = build_args(env, kind, body, cls, combo, n, st)
                            outs = it.call_body(body, args, st, env.kinds[kind].env(n))
                            for o in panics(outs):
                                s, w = pc_status(o.pc)
                                if s == "sat":
                                    v, d = REFUTED, "panics on valid arguments in configuration %s: %s in %s %s" % (cfg, o.info.get("msg"), o.info.get("fn"), w or "")
                                elif s == "unknown" and v == PROVED:
                                    v, d = UNDECIDED, "possible panic in %s: %s" % (cfg, o.info.get("msg"))
                            rs = []
                            for o in returns(outs):
                                s, w = pc_status(o.pc)
                                if s == "unsat":
                                    continue
                                muts_c = tuple(canon(it.read_ptr(o.state, m), it, o.state) for m in muts if not isinstance(m, tuple))
                                rs.append((tuple(canon(c_, it, o.state) for c_ in o.pc if not (isinstance(c_, W) and c_.val is not None)), canon(o.value, it, o.state), muts_c))
                            res[cfg] = rs
                        if v == PROVED:
                            if res["dbg"] != res["rel"]:
                                if has_top(tuple(res["dbg"])) or has_top(tuple(res["rel"])):
                                    v, d = UNDECIDED, "results contain top"
                                else:
                                    v, d = REFUTED, "abstract results differ between the two build configurations"
                            elif has_top(tuple(res["dbg"])):
                                v, d = UNDECIDED, "results contain top"
                    except Undecided as e:
                        v, d = UNDECIDED, e.cause
                    chk.add("C17.B", key, v, d, where=where_of(b))
    chk.floor("C17 methods in scope", methods_in_scope, 2 * 17)
    # ---------------------------------------------------- C17.S size mismatch (dynamic Lut)
    forms_n = 0
    for cfg in ("rel", "dbg"):
        env = envs[cfg]
        K = env.kinds["dyn"]
        forms = [f for f in discover_forms(env, "dyn") if f[2] == 2]
        extra = [(K.methods["from_cofactors"], "from_cofactors", 2, False, "lut::Lut::from_cofactors")] if "from_cofactors" in K.methods else []
        forms_n = len(forms)
        for b, op, ar, inplace, label in forms + extra:
            for (n1, n2) in ((2, 3), (3, 2), (0, 1), (5, 6), (6, 7), (7, 6), (7, 8), (8, 6)):
                key = "%s n=%d vs %d [%s]" % (label, n1, n2, cfg)
                try:
                    it = env.interp()
                    st = State()
                    cls = api.classes("dyn", b["name"]) or []
                    combo = [0 for _ in cls]
                    args, muts = build_args(env, "dyn", b, cls, combo, n1, st, n_other=n2)
                    outs = it.call_body(b, args, st, {})
                    fr = feasible_returns(outs)
                    if not fr:
                        v, d = PROVED, ""
                    elif fr[0][1] == "sat":
                        v, d = REFUTED, "returns a value for operands of %d and %d variables (configuration %s)" % (n1, n2, cfg)
                    else:
                        v, d = UNDECIDED, "possible return"
                except Undecided as e:
                    v, d = UNDECIDED, e.cause
                chk.add("C17.S", key, v, d, where=where_of(b))
    profile_effects(chk)
    chk.floor("C17.S binary forms", forms_n, 24)
    chk.notes["n_range"] = [0, nmax]
    chk.notes["configurations"] = ["debug-assertions+overflow-checks on", "both off"]
    if chk.tier == "thorough":
        from .. import witnesses
        witnesses.run(chk, "C17", ['W3'])


def profile_effects(chk):
    """C17.P - effect discipline across build profiles.  Every body is extracted twice (debug assertions and overflow
    checks on / off).  A call that exists only in the debug body sits inside a `debug_assert!`; if one of its
    arguments is a mutable reference that reaches a parameter of the function (or its return place), the function
    writes caller-visible state in one build and not in the other: the two builds cannot return identical results."""
    fd, fr_ = F.load("dbg"), F.load("rel")
    rel_bodies = {b["key"]: b for b in fr_.lib_bodies()}
    bodies = 0
    only_dbg = 0

    def live_blocks(b):
        """blocks reachable from the entry when switches on compile-time constants (cfg!(debug_assertions)) are resolved"""
        blocks = b["mir"]["blocks"]
        cdef = {}
        for blk in blocks:
            for st_ in blk["stmts"]:
                if st_["k"] == "assign" and not st_["place"]["p"]:
                    l = st_["place"]["l"]
                    rv = st_["rv"]
                    ok = rv["k"] == "use" and rv["op"]["k"] == "const" and isinstance(rv["op"].get("val"), (bool, int))
                    cdef[l] = (rv["op"]["val"] if ok and l not in cdef else None)
        seen, todo = set(), [0]
        while todo:
            x = todo.pop()
            if x in seen or x is None or x >= len(blocks):
                continue
            seen.add(x)
            t = blocks[x]["term"]
            k = t["k"]
            if k == "switch":
                d = t["discr"]
                val = None
                if d["k"] == "const" and isinstance(d.get("val"), (bool, int)):
                    val = int(d["val"])
                elif d["k"] in ("copy", "move") and not d["place"]["p"] and cdef.get(d["place"]["l"]) is not None:
                    val = int(cdef[d["place"]["l"]])
                if val is not None:
                    tgt = t["otherwise"]
                    for v_, tg in t["arms"]:
                        if v_ == val:
                            tgt = tg
                    todo.append(tgt)
                else:
                    todo += [tg for _, tg in t["arms"]] + [t["otherwise"]]
            else:
                for f_ in ("t", "target", "unwind", "cleanup"):
                    if isinstance(t.get(f_), int):
                        todo.append(t[f_])
                if k == "assert":
                    todo.append(t.get("t"))
        return seen

    def calls(b):
        out = []
        live = live_blocks(b)
        for bi, blk in enumerate(b["mir"]["blocks"]):
            if bi not in live:
                continue
            t = blk["term"]
            if t["k"] == "call":
                f_ = t.get("func") or {}
                out.append((((f_.get("resolved") or {}).get("path")) or f_.get("path") or "?", t))
        return out

    for b in fd.lib_bodies():
        rb = rel_bodies.get(b["key"])
        if rb is None or b.get("mir") is None or rb.get("mir") is None:
            continue
        bodies += 1
        rel_count = {}
        for p_, _ in calls(rb):
            rel_count[p_] = rel_count.get(p_, 0) + 1
        locals_ = b["mir"]["locals"]
        nargs = len(b["sig"]["inputs"]) if b.get("sig") else 0
        defs = {}
        for blk in b["mir"]["blocks"]:
            for st_ in blk["stmts"]:
                if st_["k"] == "assign":
                    defs.setdefault(st_["place"]["l"], []).append(st_["rv"])

        def roots(l, seen):
            """locals an address-carrying local derives from (through reborrows / copies / moves)"""
            if l in seen:
                return set()
            seen.add(l)
            if l <= nargs:
                return {l}
            out = set()
            for rv in defs.get(l, []):
                if rv["k"] in ("ref", "addr_of", "copy_for_deref"):
                    out |= roots(rv["place"]["l"], seen)
                elif rv["k"] in ("use", "cast") and (rv.get("op") or {}).get("k") in ("copy", "move"):
                    out |= roots(rv["op"]["place"]["l"], seen)
            return out or {l}
        for p_, t in calls(b):
            if rel_count.get(p_, 0) > 0:
                rel_count[p_] -= 1
                continue
            if p_.startswith("core::panicking") or p_.startswith("std::rt::") or "panic" in p_ or "assert_failed" in p_ or "fmt::Arguments" in p_:
                continue
            only_dbg += 1
            key = "%s calls %s only with debug assertions" % (b["path"], p_)
            muts = []
            for a_ in t["args"]:
                if a_["k"] in ("copy", "move"):
                    ty = locals_[a_["place"]["l"]]["ty"]
                    if ty.get("k") == "ref" and ty.get("mut"):
                        muts.append((a_["place"]["l"], ty.get("s")))
            if not muts:
                chk.add("C17.P", key, PROVED, "", where=where_of(b))
                continue
            hit = [(l, s_, sorted(r for r in roots(l, set()) if r <= nargs)) for l, s_ in muts]
            reach = [(l, s_, r) for l, s_, r in hit if r]
            if reach:
                l, s_, r = reach[0]
                what = "the return place" if r == [0] else "parameter %s" % ", ".join(str(x) for x in r if x)
                chk.add("C17.P", key, REFUTED, "the call receives %s derived from %s, so it writes caller-visible state only when debug assertions are on; "
                        "release builds skip it and return a different result" % (s_, what), where=where_of(b))
            else:
                chk.add("C17.P", key, UNDECIDED, "debug-only call with a mutable reference to a local (%s)" % ", ".join(s_ for _, s_, _ in hit), where=where_of(b))
    chk.add("C17.P", "bodies compared across the two configurations", PROVED if bodies >= 150 else UNDECIDED, "%d bodies" % bodies)
    chk.notes["debug_only_calls"] = only_dbg
