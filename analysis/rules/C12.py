"""C12 - cube algebra is semantic (lane analysis, E4 lane mode).

Cubes are pairs of 32-bit words; every operation except the constructors with shifts is lane-wise.
Each public operation is run on symbolic cubes.  Conditions and results are abstracted to uniform
lane predicates / lane functions and compared with the semantic specification on *every* non-empty
set of lane values (exact for all 2^64 cubes at once).  Inputs are canonical cubes: either free of
contradictory lanes or the one canonical zero (established by C12.Z for every constructor).
Not decided: implies_lut, literal/gate counts, Cube::all (iterator adaptor chains).
"""
from .. import facts as F
from ..harness import *
from ..cubemodel import *
from ..absint import new_cell

LEVEL = "other"


def lane(u, names):
    return dict(zip(names, u))


def cube_value_rule(chk, facts, cm, rule):
    """Cube::value(m) is the conjunction of the cube's literals under m (all cubes at once, lane abstraction), and
    the canonical zero cube is false everywhere.  Shared by C12 (cube algebra) and C16 (printed text versus value)."""
    b = cm.method("value")
    for case in ("sym", "zero"):
        key = "Cube::value a=%s" % case
        try:
            it = Interp(facts)
            st = State()
            a = cm.sym("a") if case == "sym" else cm.zero
            names = (["a.P", "a.N"] if case == "sym" else []) + ["m"]
            U = universe(names, (lambda d: not (d["a.P"] and d["a.N"])) if case == "sym" else None)
            outs = it.call_body(b, [arg_for(b["sig"]["inputs"][0], a, st), watoms(64, "m")], st, {})
            if case == "sym":
                spec = lambda S: all((not u[0] or u[2]) and (not u[1] or not u[2]) for u in S)
            else:
                spec = lambda S: False
            v, d = decide_bool(outs, names, U, spec)
        except Undecided as e:
            v, d = UNDECIDED, e.cause
        chk.add(rule, key, v, d, where=where_of(b), sample=dict(obligation=key, lanes=NL, lane_values=len(U), verdict=v))


def run(chk):
    facts = F.load("dbg")
    cm = CubeModel(facts)
    chk.trust("rustc MIR construction; lemma: for canonical cubes, literal-set containment is implication and a contradictory lane means the empty set of assignments")
    chk.assume("cubes are built through the public API (fields private), hence canonical (C12.Z)")
    chk.add("C12.O", "Cube fields are private", PROVED if cm.private else REFUTED, "")
    nc = lambda prefix: (lambda d: not (d[prefix + ".P"] and d[prefix + ".N"]))
    cube_value_rule(chk, facts, cm, "C12.L")
    # ------------------------------------------------------------------ unary predicates
    for mname, spec_sym, spec_zero in (("is_zero", lambda S: False, True), ("is_one", lambda S: all(not u[0] and not u[1] for u in S), False),
                                       ("is_constant", lambda S: all(not u[0] and not u[1] for u in S), True)):
        b = cm.method(mname)
        for case in ("sym", "zero"):
            key = "Cube::%s a=%s" % (mname, case)
            try:
                it = Interp(facts)
                st = State()
                a = cm.sym("a") if case == "sym" else cm.zero
                names = ["a.P", "a.N"] if case == "sym" else []
                U = universe(names, (lambda d: not (d["a.P"] and d["a.N"])) if case == "sym" else None)
                outs = it.call_body(b, [arg_for(b["sig"]["inputs"][0], a, st)], st, {})
                v, d = decide_bool(outs, names, U, spec_sym if case == "sym" else (lambda S, z=spec_zero: z))
            except Undecided as e:
                v, d = UNDECIDED, e.cause
            chk.add("C12.L", key, v, d, where=where_of(b))
    # ------------------------------------------------------------------ binary predicates
    def sp_implies(ca, cb):
        if ca == "zero":
            return lambda S: True
        if cb == "zero":
            return lambda S: False
        return lambda S: all((not u[2] or u[0]) and (not u[3] or u[1]) for u in S)

    def sp_intersects(ca, cb):
        if ca == "zero" or cb == "zero":
            return lambda S: False
        return lambda S: all(not ((u[0] or u[2]) and (u[1] or u[3])) for u in S)
    for mname, spf in (("implies", sp_implies), ("intersects", sp_intersects)):
        b = cm.method(mname)
        for ca in ("sym", "zero"):
            for cb in ("sym", "zero"):
                key = "Cube::%s a=%s b=%s" % (mname, ca, cb)
                try:
                    it = Interp(facts)
                    st = State()
                    a = cm.sym("a") if ca == "sym" else cm.zero
                    bb = cm.sym("b") if cb == "sym" else cm.zero
                    names = (["a.P", "a.N"] if ca == "sym" else []) + (["b.P", "b.N"] if cb == "sym" else [])
                    U = universe(names, lambda d: not (d.get("a.P") and d.get("a.N")) and not (d.get("b.P") and d.get("b.N")))
                    outs = it.call_body(b, [arg_for(b["sig"]["inputs"][0], a, st), arg_for(b["sig"]["inputs"][1], bb, st)], st, {})
                    spec = spf(ca, cb)
                    if ca == "sym" and cb == "zero":
                        spec2 = lambda S, f=spec: f([(u[0], u[1], 1, 1) for u in S]) if False else f(S)
                        spec = spec2
                    if ca == "zero" and cb == "sym" and mname == "implies":
                        spec = lambda S: True
                    v, d = decide_bool(outs, names, U, spec)
                except Undecided as e:
                    v, d = UNDECIDED, e.cause
                chk.add("C12.L", key, v, d, where=where_of(b))
    # ------------------------------------------------------------------ conjunction (all BitAnd forms) and from_mask
    forms = [(bd, "<%s as %s>::%s" % (sty["s"], tr["s"], bd["name"])) for bd, sty, tr in facts.trait_impl_methods("std::ops::BitAnd") if (sty["t"] if sty["k"] == "ref" else sty).get("path") == CUBE]
    chk.floor("C12.S BitAnd forms", len(forms), 4)
    for bd, label in forms:
        for ca in ("sym", "zero"):
            for cb in ("sym", "zero"):
                key = "%s a=%s b=%s" % (label, ca, cb)
                try:
                    it = Interp(facts)
                    st = State()
                    a = cm.sym("a") if ca == "sym" else cm.zero
                    bb = cm.sym("b") if cb == "sym" else cm.zero
                    names = (["a.P", "a.N"] if ca == "sym" else []) + (["b.P", "b.N"] if cb == "sym" else [])
                    U = universe(names, lambda d: not (d.get("a.P") and d.get("a.N")) and not (d.get("b.P") and d.get("b.N")))
                    outs = it.call_body(bd, [arg_for(bd["sig"]["inputs"][0], a, st), arg_for(bd["sig"]["inputs"][1], bb, st)], st, {})

                    def spec(S, ca=ca, cb=cb):
                        if ca == "zero" or cb == "zero":
                            return "ZERO"
                        if any((u[0] or u[2]) and (u[1] or u[3]) for u in S):
                            return "ZERO"
                        return {u: (u[0] | u[2], u[1] | u[3]) for u in S}
                    v, d = decide_cube(cm, outs, names, U, spec)
                except Undecided as e:
                    v, d = UNDECIDED, e.cause
                chk.add("C12.L", key, v, d, where=where_of(bd))
    b = cm.method("from_mask")
    key = "Cube::from_mask"
    try:
        it = Interp(facts)
        st = State()
        names = ["a.P", "a.N"]
        U = universe(names)
        outs = it.call_body(b, [watoms(32, "a.P"), watoms(32, "a.N")], st, {})
        v, d = decide_cube(cm, outs, names, U, lambda S: "ZERO" if any(u[0] and u[1] for u in S) else {u: (u[0], u[1]) for u in S})
    except Undecided as e:
        v, d = UNDECIDED, e.cause
    chk.add("C12.Z", key, v, d, where=where_of(b))
    # ------------------------------------------------------------------ equality is field-wise
    eqs = [bd for bd, sty, tr in facts.trait_impl_methods("std::cmp::PartialEq") if sty.get("path") == CUBE]
    if not eqs:
        chk.refuted("C12.E", "anchor-missing: PartialEq for Cube", "")
    else:
        try:
            it = Interp(facts)
            st = State()
            names = ["a.P", "a.N", "b.P", "b.N"]
            U = universe(names)
            outs = it.call_body(eqs[0], [arg_for({"k": "ref"}, cm.sym("a"), st), arg_for({"k": "ref"}, cm.sym("b"), st)], st, {})
            v, d = decide_bool(outs, names, U, lambda S: all(u[0] == u[2] and u[1] == u[3] for u in S), cap=16)
        except Undecided as e:
            v, d = UNDECIDED, e.cause
        chk.add("C12.E", "<Cube as PartialEq>::eq is equality of both literal sets", v, d, where=where_of(eqs[0]))
    # ------------------------------------------------------------------ constructors with shifts (word mode)
    for cfg in (["dbg"] if chk.tier == "quick" else ["dbg", "rel"]):
        fx = F.load(cfg)
        cmx = CubeModel(fx) if cfg != "dbg" else cm
        tag = "" if cfg == "dbg" else " [rel]"
        b = cmx.method("minterm")
        for n in range(0, 33):
            key = "Cube::minterm num_vars=%d%s" % (n, tag)
            try:
                it = Interp(fx)
                outs = it.call_body(b, [wconst(64, n), watoms(64, "m")], State(), {})
                o, v, d = single_return(outs)
                if o is not None:
                    r = o.value
                    ep = [B.atom("m[%d]" % i) if i < n else ZERO for i in range(32)]
                    en = [B.bnot(B.atom("m[%d]" % i)) if i < n else ZERO for i in range(32)]
                    v, d = compare_bits(cmx.pos(r).all_bits(), ep, o.pc)
                    if v == PROVED:
                        v, d = compare_bits(cmx.neg(r).all_bits(), en, o.pc)
                        d = d and "negative literals: " + d
                    else:
                        d = "positive literals: " + d
            except Undecided as e:
                v, d = UNDECIDED, e.cause
            chk.add("C12.M", key, v, d, where=where_of(b), sample=dict(obligation=key, verdict=v) if n == 32 else None)
        for mname, positive in (("nth_var", True), ("nth_var_inv", False)):
            b = cmx.method(mname)
            for var in range(32):
                key = "Cube::%s var=%d%s" % (mname, var, tag)
                try:
                    it = Interp(fx)
                    outs = it.call_body(b, [wconst(64, var)], State(), {})
                    o, v, d = single_return(outs)
                    if o is not None:
                        r = o.value
                        p, q = cmx.pos(r).val, cmx.neg(r).val
                        want = (1 << var, 0) if positive else (0, 1 << var)
                        v, d = (PROVED, "") if (p, q) == want else (REFUTED, "literal sets (%s,%s), expected (%s,%s)" % (hex(p or 0), hex(q or 0), hex(want[0]), hex(want[1])))
                except Undecided as e:
                    v, d = UNDECIDED, e.cause
                chk.add("C12.M", key, v, d, where=where_of(b))
    # one / zero
    try:
        it = Interp(facts)
        one = returns(it.call_body(cm.method("one"), [], State(), {}))[0].value
        ok = cm.pos(one).val == 0 and cm.neg(one).val == 0
        chk.add("C12.M", "Cube::one has no literal", PROVED if ok else REFUTED, "")
        z = cm.zero
        zc = (cm.pos(z).val & cm.neg(z).val) != 0
        chk.add("C12.Z", "Cube::zero is contradictory", PROVED if zc else REFUTED, "")
    except (Undecided, IndexError) as e:
        chk.undecided("C12.M", "Cube::one / Cube::zero", str(e))
    small(chk, facts, cm)
    cube_windows(chk, facts, cm)
    chk.notes["explanation"] = "lane abstraction: every condition/result of the cube operations is a uniform per-lane predicate/function; compared with the semantic specification on all non-empty sets of lane values; shift constructors in 32-bit word mode"


def decide_cube(cm, outs, names, U, spec):
    """outs return cubes; spec(S) -> 'ZERO' | {u: (P,N)}"""
    rows = []
    for o in outs:
        conds = []
        for c in o.pc:
            p = cond_allowed(c, names, NL, U)
            if p is None:
                return UNDECIDED, "path condition is not a uniform lane predicate"
            conds.append(p)
        if o.kind == "panic":
            rows.append((conds, "panic"))
            continue
        r = o.value
        if cm.is_zero_value(r):
            rows.append((conds, "ZERO"))
            continue
        if not (isinstance(r, Agg) and r.key == CUBE):
            return UNDECIDED, "result %r" % (r,)
        fp = lane_function(cm.pos(r).all_bits(), names, NL, U)
        fn = lane_function(cm.neg(r).all_bits(), names, NL, U)
        if fp is None or fn is None:
            return UNDECIDED, "result literal sets are not lane functions"
        rows.append((conds, (fp, fn)))
    for S in subsets(U):
        got = [val for conds, val in rows if all(holds(c, S) for c in conds)]
        want = spec(S)
        if len(got) != 1:
            return REFUTED, "lane values %s: %d result paths enabled" % (list(S), len(got))
        g = got[0]
        if want == "ZERO" or g == "ZERO" or g == "panic":
            if g != want:
                return REFUTED, "operands with lane values %s (%s): result is %s, specification says %s" % (list(S), ",".join(names), "a non-canonical/non-zero cube" if g != "ZERO" else "the zero cube", "the canonical zero cube" if want == "ZERO" else "a product")
            continue
        for u in S:
            if (g[0][u], g[1][u]) != want[u]:
                return REFUTED, "lane value %s (%s): result literals %s, specification says %s" % (u, ",".join(names), (g[0][u], g[1][u]), want[u])
    return PROVED, ""


# ------------------------------------------------------------------------------------------
# small-domain rules (windows of variables): counts, slices of variables, implicants, enumeration
# ------------------------------------------------------------------------------------------
def window_cube(cm, name, window):
    f = [None, None]
    f[cm.pi] = W(32, bits=[B.atom("%s.P[%d]" % (name, i)) if i in window else ZERO for i in range(32)])
    f[cm.ni] = W(32, bits=[B.atom("%s.N[%d]" % (name, i)) if i in window else ZERO for i in range(32)])
    return Agg("adt", CUBE, 0, f)


def small(chk, facts, cm):
    from ..stdmodel import drain
    from ..absint import Frame
    env = Env(facts)
    KD = env.kinds["dyn"]
    # ---- literal and gate counts
    for window in ((0, 1, 2), (29, 30, 31), (0, 15, 31)):
        atoms = ["c.P[%d]" % i for i in window] + ["c.N[%d]" % i for i in window]
        contradictory = lambda d, w=window: any(d["c.P[%d]" % i] and d["c.N[%d]" % i] for i in w)
        for mname, spec in (("num_lits", lambda d: sum(d.values())), ("num_gates", lambda d: max(sum(d.values()), 1) - 1)):
            b = cm.method(mname)
            key = "Cube::%s over variables %s" % (mname, list(window))
            try:
                it = Interp(facts)
                st = State()
                outs = it.call_body(b, [arg_for(b["sig"]["inputs"][0], window_cube(cm, "c", window), st)], st, {})
                v, d = decide_by_enumeration(outs, atoms, lambda dd, s=spec: "skip" if contradictory(dd) else s(dd))
            except Undecided as e:
                v, d = UNDECIDED, e.cause
            chk.add("C12.N", key, v, d, where=where_of(b))
    for mname, want in (("num_lits", 0), ("num_gates", 0)):
        b = cm.method(mname)
        try:
            it = Interp(facts)
            st = State()
            outs = it.call_body(b, [arg_for(b["sig"]["inputs"][0], cm.zero, st)], st, {})
            o, v, d = single_return(outs)
            if o is not None:
                v, d = (PROVED, "") if isinstance(o.value, W) and o.value.val == want else (REFUTED, "%s of the zero cube is %r" % (mname, o.value))
        except Undecided as e:
            v, d = UNDECIDED, e.cause
        chk.add("C12.N", "Cube::%s of the zero cube" % mname, v, d, where=where_of(b))
    # ---- cubes mentioning all 32 variables (every lane carries a literal: pos | neg is all ones, as for the zero cube)
    for label, pv in (("all negative", 0), ("all positive", 0xFFFFFFFF), ("alternating", 0x55555555), ("one positive", 1 << 31), ("one negative", 0x7FFFFFFF)):
        for mname, want in (("num_lits", 32), ("num_gates", 31)):
            b = cm.method(mname)
            try:
                it = Interp(facts)
                st = State()
                f = [None, None]
                f[cm.pi] = W(32, val=pv)
                f[cm.ni] = W(32, val=pv ^ 0xFFFFFFFF)
                outs = it.call_body(b, [arg_for(b["sig"]["inputs"][0], Agg("adt", CUBE, 0, f), st)], st, {})
                o, v, d = single_return(outs)
                if o is not None:
                    v, d = (PROVED, "") if isinstance(o.value, W) and o.value.val == want else ((REFUTED, "%s of the minterm of 32 variables with pos = %#x is %r, expected %d" % (mname, pv, o.value, want)) if isinstance(o.value, W) and o.value.val is not None else (UNDECIDED, "result %r" % (o.value,)))
            except Undecided as e:
                v, d = UNDECIDED, e.cause
            chk.add("C12.N", "Cube::%s of a cube over all 32 variables (%s)" % (mname, label), v, d, where=where_of(b))
    # ---- pos_vars / neg_vars enumerate exactly the literals, increasing
    for mname, fld in (("pos_vars", "P"), ("neg_vars", "N")):
        b = cm.method(mname)
        window = (0, 3, 31)
        key = "Cube::%s over variables %s" % (mname, list(window))
        try:
            it = Interp(facts, max_paths=4096)
            it.prune = True
            st = State()
            cell = new_cell()
            st.mem[cell] = window_cube(cm, "c", window)
            outs = it.call_body(b, [Ptr(cell, ())], st, {})
            o, v, d = single_return(outs)
            if o is not None:
                fr = Frame(b, b["mir"], {}, 0)
                v, d = PROVED, ""
                n_paths = 0
                for s1, p1, items in drain(it, fr, o.state, o.pc, o.value):
                    s_, w_ = pc_status(p1)
                    if s_ == "unsat":
                        continue
                    if s_ != "sat":
                        v, d = UNDECIDED, "path not decided"
                        break
                    n_paths += 1
                    got = [x.val if isinstance(x, W) else None for x in items]
                    want = [i for i in window if w_.get("c.%s[%d]" % (fld, i))]
                    if any(("c.%s[%d]" % (fld, i)) not in w_ for i in window):
                        v, d = UNDECIDED, "path does not fix the literal set"
                        break
                    if got != want:
                        v, d = REFUTED, "%s yields %s for the literal set %s" % (mname, got, want)
                        break
                if v == PROVED and n_paths != 8:
                    v, d = UNDECIDED, "%d paths" % n_paths
        except Undecided as e:
            v, d = UNDECIDED, e.cause
        chk.add("C12.N", key, v, d, where=where_of(b))
    # ---- from_vars on slices of symbolic variables (two bits each: variables 0..3)
    b = cm.method("from_vars")
    for lp, ln in ((1, 1), (2, 1), (0, 2), (1, 2)):
        key = "Cube::from_vars with %d positive and %d negative symbolic variables" % (lp, ln)
        try:
            it = Interp(facts, max_paths=1024)
            st = State()

            def mkslice(prefix, k):
                cell = new_cell()
                st.mem[cell] = Arr([W(64, bits=[B.atom("%s%d[0]" % (prefix, j)), B.atom("%s%d[1]" % (prefix, j))] + [ZERO] * 62) for j in range(k)])
                return Ptr(cell, (), (0, k))
            outs = it.call_body(b, [mkslice("p", lp), mkslice("q", ln)], st, {})
            atoms = ["p%d[%d]" % (j, bb) for j in range(lp) for bb in (0, 1)] + ["q%d[%d]" % (j, bb) for j in range(ln) for bb in (0, 1)]

            def spec(dd):
                P = N = 0
                for j in range(lp):
                    P |= 1 << (dd["p%d[0]" % j] + 2 * dd["p%d[1]" % j])
                for j in range(ln):
                    N |= 1 << (dd["q%d[0]" % j] + 2 * dd["q%d[1]" % j])
                if P & N:
                    return (cm.pos(cm.zero).val, cm.neg(cm.zero).val)
                return (P, N)
            v, d = decide_by_enumeration(outs, atoms, spec, project=lambda g: (g[2][cm.pi], g[2][cm.ni]))
        except Undecided as e:
            v, d = UNDECIDED, e.cause
        chk.add("C12.V", key, v, d, where=where_of(b))
    # ---- implies_lut: the cube is an implicant of f
    b = cm.method("implies_lut")
    for n in (0, 1, 2):
        window = tuple(range(n))
        key = "Cube::implies_lut n=%d" % n
        try:
            it = Interp(facts, max_paths=4096)
            it.prune = True
            st = State()
            cube = window_cube(cm, "c", window)
            lut = KD.place(st, KD.mk(st, n, sym_words(n, "a")))
            outs = it.call_body(b, [arg_for(b["sig"]["inputs"][0], cube, st), lut], st, {})
            atoms = ["c.P[%d]" % i for i in window] + ["c.N[%d]" % i for i in window] + ["a[%d]" % p for p in range(1 << n)]

            def spec(dd):
                if any(dd["c.P[%d]" % i] and dd["c.N[%d]" % i] for i in window):
                    return "skip"
                for m in range(1 << n):
                    val = all((not dd["c.P[%d]" % i] or (m >> i) & 1) and (not dd["c.N[%d]" % i] or not (m >> i) & 1) for i in window)
                    if val and not dd["a[%d]" % m]:
                        return 0
                return 1
            v, d = decide_by_enumeration(outs, atoms, spec)
        except Undecided as e:
            v, d = UNDECIDED, e.cause
        chk.add("C12.I", key, v, d, where=where_of(b))
    # ---- Cube::all(n): exactly the 3^n non-contradictory cubes over n variables, each once (folded: n concrete)
    b = cm.method("all")
    for n in (0, 1, 2, 3):
        key = "Cube::all(%d)" % n
        try:
            it = Interp(facts, max_paths=64, max_steps=1000000)
            st = State()
            outs = it.call_body(b, [wconst(64, n)], st, {})
            o, v, d = single_return(outs)
            if o is not None:
                fr = Frame(b, b["mir"], {}, 0)
                paths = drain(it, fr, o.state, o.pc, o.value)
                if len(paths) != 1:
                    v, d = UNDECIDED, "%d paths" % len(paths)
                else:
                    got = [(cm.pos(c).val, cm.neg(c).val) for c in paths[0][2]]
                    want = sorted((p_, q_) for p_ in range(1 << n) for q_ in range(1 << n) if not p_ & q_)
                    if sorted(got) == want and len(got) == 3 ** n:
                        v, d = PROVED, ""
                    else:
                        v, d = REFUTED, "Cube::all(%d) yields %d cubes (%d distinct), expected the %d non-contradictory ones" % (n, len(got), len(set(got)), 3 ** n)
        except Undecided as e:
            v, d = UNDECIDED, e.cause
        chk.add("C12.A", key, v, d, where=where_of(b))


def cube_windows(chk, facts, cm):
    """C12.W: the binary cube operations on real cubes over windows of variables that include the sign lane 31
    (window mode: every result bit is an exact function of the literal atoms; whatever bit tricks the code uses).
    For every canonical pair: a & b is the canonical zero iff the literal sets clash, else their union (all four
    forms); intersects = no clash; implies = containment of the literal sets."""
    import itertools as _it
    from ..harness import Space
    forms = [(bd, "<%s as %s>::%s" % (sty["s"], tr["s"], bd["name"])) for bd, sty, tr in facts.trait_impl_methods("std::ops::BitAnd") if (sty["t"] if sty["k"] == "ref" else sty).get("path") == CUBE]
    ops_ = [(bd, label, "and") for bd, label in forms]
    for mname in ("intersects", "implies"):
        if mname in cm.methods:
            ops_.append((cm.methods[mname], "Cube::%s" % mname, mname))
    zero_vals = (cm.zero.fields[0].val, cm.zero.fields[1].val)
    for window in ((0, 1), (3, 31), (30, 31), (0, 15, 31)):
        for bd, label, kind_ in ops_:
            if kind_ == "and" and chk.tier == "quick" and len(window) == 3 and label != ops_[0][1]:
                continue
            key = "%s on cubes over variables %s" % (label, list(window))
            try:
                names = ["%s.%s[%d]" % (c_, f_, i_) for c_ in "ab" for f_ in "PN" for i_ in window]
                canon = [W(1, bits=[B.bnot(B.band(B.atom("%s.P[%d]" % (c_, i_)), B.atom("%s.N[%d]" % (c_, i_))))]) for c_ in "ab" for i_ in window]
                space = Space(names, canon)
                it = Interp(facts, max_paths=4096)
                it.prune = True
                it.space = space
                st = State()

                def mk(c_):
                    f = [None, None]
                    f[cm.pi] = W(32, bits=[B.atom("%s.P[%d]" % (c_, i_)) if i_ in window else ZERO for i_ in range(32)])
                    f[cm.ni] = W(32, bits=[B.atom("%s.N[%d]" % (c_, i_)) if i_ in window else ZERO for i_ in range(32)])
                    return Agg("adt", CUBE, 0, f)
                with space:
                    outs = it.call_body(bd, [arg_for(bd["sig"]["inputs"][0], mk("a"), st), arg_for(bd["sig"]["inputs"][1], mk("b"), st)], st, {}, pc=tuple(canon))
                owner = {}
                for idx_, o in enumerate(outs):
                    m_ = space.pc_mask(o.pc)
                    if m_ is None:
                        raise Undecided("path condition with top")
                    while m_:
                        low = m_ & -m_
                        owner.setdefault(low.bit_length() - 1, []).append(idx_)
                        m_ ^= low
                v, d = PROVED, ""
                for lits in _it.product((0, 1, 2), repeat=2 * len(window)):
                    named = {}
                    cube = {}
                    for ci, c_ in enumerate("ab"):
                        pos = neg = 0
                        for wi, i_ in enumerate(window):
                            l_ = lits[ci * len(window) + wi]
                            named["%s.P[%d]" % (c_, i_)] = int(l_ == 1)
                            named["%s.N[%d]" % (c_, i_)] = int(l_ == 2)
                            pos |= (l_ == 1) << i_
                            neg |= (l_ == 2) << i_
                        cube[c_] = (pos, neg)
                    en = [outs[x_] for x_ in owner.get(space.index(named), [])]
                    desc = "a = (pos %#x, neg %#x), b = (pos %#x, neg %#x)" % (cube["a"] + cube["b"])
                    if len(en) != 1:
                        v, d = UNDECIDED, "%d paths enabled for %s" % (len(en), desc)
                        break
                    o = en[0]
                    if o.kind != "return":
                        v, d = REFUTED, "panics (%s) for %s" % (o.info.get("msg"), desc)
                        break
                    asg = {B.ATOMS.get(k_): v_ for k_, v_ in named.items()}
                    got = eval_value(o.value, asg)
                    if got is None:
                        raise Undecided("result with top")
                    up, un = cube["a"][0] | cube["b"][0], cube["a"][1] | cube["b"][1]
                    clash = (up & un) != 0
                    if kind_ == "and":
                        want = zero_vals if clash else ((up, un) if cm.pi == 0 else (un, up))
                        gv = tuple(got[2])
                        if gv != tuple(want):
                            v, d = REFUTED, "%s: a & b = (%#x, %#x), expected %s" % (desc, gv[0], gv[1], "the canonical zero cube" if clash else "(%#x, %#x)" % tuple(want))
                            break
                    else:
                        want = (not clash) if kind_ == "intersects" else ((cube["a"][0] | cube["b"][0]) == cube["a"][0] and (cube["a"][1] | cube["b"][1]) == cube["a"][1])
                        if bool(got) != want:
                            v, d = REFUTED, "%s: %s returns %s, expected %s" % (desc, kind_, bool(got), want)
                            break
            except Undecided as e:
                v, d = UNDECIDED, e.cause
            chk.add("C12.W", key, v, d, where=where_of(bd))
