"""C10 - LutN and Lut behave identically; conversions are lossless.

C10.A  every alias Lut0..Lut12 exists, is exported from the crate root and ties N to
       T = max(1, 2^N/64) blocks.
C10.P  API parity: every public inherent method and every trait impl of one type has a
       counterpart on the other (signatures modulo the num_vars parameter).
C10.S  differential abstract interpretation: the same method on the same symbolic table (same
       atoms) gives the same abstract result on both types, for every n and valid argument
       partition; methods that cannot be modelled are kept as uninterpreted functions of their
       abstract arguments (same kernel, same arguments => same result).
C10.C  TryFrom<Lut>/From<StaticLut>/integer conversions: Err exactly on a different variable
       count, blocks copied verbatim, bit m of the integer is f(m).
"""
import itertools

from .. import facts as F
from .. import specs as S
from .. import api
from ..harness import *
from ..absint import RESULT
from .C02 import build_by_type
from .C17 import build_args

LEVEL = "proof"


def norm_ty(t, adts):
    """signature type with the two table types identified"""
    s = t["s"]
    for a in ("lut::Lut", "static_lut::StaticLut<N, T>", "static_lut::StaticLut"):
        s = s.replace(a, "TABLE")
    s = s.replace("lut::LutIterator", "ITER").replace("static_lut::StaticLutIterator<N, T>", "ITER").replace("TABLEIterator<N, T>", "ITER").replace("TABLEIterator", "ITER")
    s = s.replace("std::vec::Vec<u8>", "PERM").replace("[u8; N]", "PERM")
    return s


def run(chk):
    facts = F.load("dbg")
    env = Env(facts)
    shape = env.shape
    nmax = 8 if chk.tier == "quick" else 12
    chk.trust("rustc type checking and MIR construction; std summaries; uninterpreted-function treatment of read-only kernels that are not modelled (text formatting, BDD counting)")
    # ------------------------------------------------------------------ C10.A
    exported = {e["name"]: e for e in facts.exports}
    n_alias = 0
    for N in range(0, 13):
        name = "Lut%d" % N
        al = [a for a in facts.aliases if a["name"] == name]
        if not al or name not in exported or exported[name]["kind"] != "TyAlias":
            chk.refuted("C10.A", "alias %s" % name, "alias missing or not exported from the crate root")
            continue
        ty = al[0]["ty"]
        ok = ty["k"] == "adt" and ty["path"] == "static_lut::StaticLut" and len(ty["args"]) == 2
        if ok:
            vals = [a["c"].get("v") for a in ty["args"]]
            want = [N, table_words(N)]
            if vals != want:
                chk.refuted("C10.A", "alias %s" % name, "%s = StaticLut<%s, %s>, expected <%d, %d>" % (name, vals[0], vals[1], want[0], want[1]))
            else:
                chk.proved("C10.A", "alias %s" % name)
                n_alias += 1
        else:
            chk.refuted("C10.A", "alias %s" % name, "alias does not name StaticLut<N, T>")
    chk.floor("C10.A aliases", n_alias, 13)
    # ------------------------------------------------------------------ C10.P
    KD, KS = env.kinds["dyn"], env.kinds["static"]
    pubd = {n_: b for n_, b in KD.methods.items() if b["vis"] == "pub"}
    pubs = {n_: b for n_, b in KS.methods.items() if b["vis"] == "pub"}
    for name in sorted(set(pubd) | set(pubs)):
        key = "method %s" % name
        if name not in pubd or name not in pubs:
            chk.undecided("C10.P", key, "public method exists on %s only (not a common operation: outside the property, reported for information)" % ("Lut" if name in pubd else "StaticLut"))
            continue
        sd = [norm_ty(t, None) for t in pubd[name]["sig"]["inputs"]]
        ss = [norm_ty(t, None) for t in pubs[name]["sig"]["inputs"]]
        cd = api.classes("dyn", name)
        if cd and cd[0] == "n" and sd and sd[0] == "usize":
            sd = sd[1:]
        od, os_ = norm_ty(pubd[name]["sig"]["output"], None), norm_ty(pubs[name]["sig"]["output"], None)
        if sd != ss or od != os_:
            chk.refuted("C10.P", key, "signatures differ: Lut(%s)->%s vs StaticLut(%s)->%s" % (", ".join(sd), od, ", ".join(ss), os_))
        else:
            chk.proved("C10.P", key)
    chk.floor("C10.P methods", len(set(pubd) & set(pubs)), 46)

    def trait_sigs(adt):
        out = {}
        for b, sty, tr in facts.trait_impl_methods():
            base = sty["t"] if sty["k"] == "ref" else sty
            if base.get("path") != adt:
                continue
            if any(a.get("k") == "const" and a["c"]["k"] == "int" for a in base.get("args", [])):
                continue  # impls for one concrete LutN (integer conversions): C10.C
            k = (tr["path"], "&" if sty["k"] == "ref" else "", tuple(norm_ty(a, None) for a in tr["args"][1:] if "s" in a), b["name"])
            out[k] = b
        return out
    td, ts = trait_sigs("lut::Lut"), trait_sigs("static_lut::StaticLut")
    ASYM = {
        # enumerated asymmetries (reason)
        ("std::default::Default", "", (), "default"): "both exist",
        ("std::marker::Copy",): "StaticLut is Copy, Lut owns a heap table",
    }
    for k in sorted(set(td) | set(ts), key=str):
        key = "impl %s%s %s %s" % (k[1], k[0], ",".join(k[2]), k[3])
        if k in td and k in ts:
            chk.proved("C10.P.traits", key)
        elif k[0] in ("std::convert::TryFrom", "std::convert::From", "std::marker::Copy", "std::clone::Clone"):
            chk.proved("C10.P.traits", key, "conversion/copy impl (asymmetric by design)")
        else:
            chk.undecided("C10.P.traits", key, "trait impl exists on %s only (not a common operation)" % ("Lut" if k in td else "StaticLut"))
    # ------------------------------------------------------------------ C10.S
    SKIP = {"random": "fresh random draws are not comparable (C19)"}
    for name in sorted(set(pubd) & set(pubs)):
        if name in SKIP:
            continue
        cd, cs = api.classes("dyn", name), api.classes("static", name)
        if cd is None or cs is None:
            chk.undecided("C10.S", "unclassified-api %s" % name, "not in analysis/api.py")
            continue
        canon_n = {"p_canonization": 3, "n_canonization": 4, "npn_canonization": 3}
        for n in range(0, nmax + 1):
            if name in canon_n and n > canon_n[name] + (1 if chk.tier == "thorough" and name != "npn_canonization" else 0):
                continue
            vals = [api.valid_values(c, n) for c in cs]
            if "luts" in cs:
                vals = [[1, 2] if c == "luts" else v for c, v in zip(cs, vals)]
            for combo in itertools.product(*vals):
                if name in ("swap", "swap_inplace") and n > 4 and chk.tier == "quick" and (combo[0] * 3 + combo[1]) % 4:
                    continue
                if cs and cs[0] == "bit" and n > 6 and chk.tier == "quick" and combo[0] not in (0, 64, (1 << n) - 1):
                    continue
                key = "%s n=%d%s" % (name, n, "".join(" %s=%s" % (c, x) for c, x in zip(cs, combo)))
                res = {}
                try:
                    for kind, cls in (("dyn", cd), ("static", cs)):
                        K = env.kinds[kind]
                        b = K.methods[name]
                        it = env.interp(max_paths=4096)
                        it.join_on_top = True
                        it.uf_fallback = True
                        it.call_hooks = (cmp_kernel_hook(env.facts),)
                        if name == "bdd_complexity":
                            # the node-counting kernel (C07, not applicable) stays an uninterpreted function of
                            # (num_vars, concatenated blocks): both types must hand it the same arguments
                            scan_bodies = [b] + [x for x in env.facts.lib_bodies() if x["path"].startswith(b["path"] + "::{closure")]
                            for blk in (bl for sb in scan_bodies for bl in sb["mir"]["blocks"]):
                                tm_ = blk["term"]
                                if tm_["k"] == "call" and "indirect" not in tm_["func"] and (tm_["func"].get("resolved") or {}).get("local"):
                                    cb = env.facts.body(tm_["func"]["resolved"]["key"])
                                    if cb and cb.get("sig") and cb["sig"]["output"]["k"] == "uint" and any(ty["k"] == "ref" and ty["t"]["k"] == "slice" for ty in cb["sig"]["inputs"]):
                                        def uf(interp, fr_, args_, st_, pc_, t_, path_=cb["path"]):
                                            from ..absint import Outcome as _O
                                            return [_O("return", st_, pc_, Opaque("uf", (path_,) + tuple(interp.uf_arg(x, st_) for x in args_)))]
                                        it.opaque_fns[cb["key"]] = uf
                        st = State()
                        full = ([n] if (cls and cls[0] == "n") else []) + list(combo)
                        if "luts" in cls:
                            # slice of tables
                            from ..absint import new_cell
                            k_ = combo[cs.index("luts")]
                            cell = new_cell()
                            st.mem[cell] = Arr([K.mk(st, n, sym_words(n, "l%d" % j)) for j in range(k_)])
                            args = [Ptr(cell, (), (0, k_))]
                            muts = []
                        else:
                            args, muts = build_args(env, kind, b, cls, full, n, st)
                        outs = it.call_body(b, args, st, K.env(n))
                        rs = []
                        for o in outs:
                            s, w = pc_status(o.pc)
                            if s == "unsat":
                                continue
                            pcs = tuple(canon(c_, it, o.state, shape=shape) for c_ in o.pc if not (isinstance(c_, W) and c_.val is not None))
                            if o.kind == "panic":
                                rs.append(("panic", pcs))
                            else:
                                rs.append(("return", pcs, canon(o.value, it, o.state, shape=shape), tuple(canon(it.read_ptr(o.state, m), it, o.state, shape=shape) for m in muts if not isinstance(m, tuple))))
                        res[kind] = (rs, list(it.uf_used))
                    rd, rs_ = res["dyn"][0], res["static"][0]
                    rd = strip_nv(rd, n)
                    rs_ = strip_nv(rs_, n)
                    if rd == rs_:
                        v, d = PROVED, ""
                    elif has_top(tuple(rd)) or has_top(tuple(rs_)):
                        v, d = UNDECIDED, "abstract results contain top"
                    elif not definite_diff_outcomes(rd, rs_):
                        v, d = UNDECIDED, "results differ only where one side is an uninterpreted call: %s" % first_diff(rd, rs_)
                    else:
                        v, d = REFUTED, "Lut and StaticLut give different abstract results: %s" % first_diff(rd, rs_)
                except Undecided as e:
                    v, d = UNDECIDED, e.cause
                chk.add("C10.S", key, v, d, where=where_of(pubs[name]),
                        sample=dict(obligation=key, verdict=v, uninterpreted=[u[0] for u in res.get("dyn", ([], []))[1]][:2]) if len(chk.samples) < 10 and n == 4 else None)
    # ------------------------------------------------------------------ C10.S for trait impls (operators, order, equality, text)
    from ..absint import new_cell
    DIFF_TRAITS = ("std::cmp::Ord", "std::cmp::PartialOrd", "std::cmp::PartialEq", "std::ops::", "std::fmt::Display", "std::fmt::LowerHex", "std::fmt::Binary", "std::default::Default", "std::clone::Clone")
    for k in sorted(set(td) & set(ts), key=str):
        if not any(k[0].startswith(p_) for p_ in DIFF_TRAITS):
            continue
        for n in ((0, 2, 5, 6, 7, 8, 10) if chk.tier == "quick" else range(0, nmax + 1)):
            if k[0] == "std::default::Default" and n != 0:
                continue
            key = "impl %s%s %s::%s n=%d" % (k[1], k[0], ",".join(k[2]), k[3], n)
            res = {}
            try:
                for kind, bd in (("dyn", td[k]), ("static", ts[k])):
                    K = env.kinds[kind]
                    it = env.interp(max_paths=1024)
                    it.uf_fallback = True
                    st = State()
                    args, muts, names = [], [], ["a", "b"]
                    fcell = None
                    for ty in bd["sig"]["inputs"]:
                        if ty["k"] == "ref" and ty["t"].get("path") == "std::fmt::Formatter":
                            fcell = new_cell()
                            st.mem[fcell] = Opaque("formatter", ((),))
                            args.append(Ptr(fcell, ()))
                            continue
                        v_, m_ = build_by_type(env, kind, ty, n, st, names, 1)
                        args.append(v_)
                        muts += m_
                    outs = it.call_body(bd, args, st, K.env(n) if kind == "static" else {})
                    rs = []
                    for o in outs:
                        s_, w_ = pc_status(o.pc)
                        if s_ == "unsat":
                            continue
                        pcs = tuple(canon(c_, it, o.state, shape=shape) for c_ in o.pc if not (isinstance(c_, W) and c_.val is not None))
                        if o.kind == "panic":
                            rs.append(("panic", pcs))
                        else:
                            extra = canon(it.read_ptr(o.state, Ptr(fcell, ())), it, o.state, shape=shape) if fcell is not None else None
                            rs.append(("return", pcs, canon(o.value, it, o.state, shape=shape), tuple(canon(it.read_ptr(o.state, m), it, o.state, shape=shape) for m in muts if not isinstance(m, tuple)), extra))
                    res[kind] = rs
                rd, rs_ = strip_nv(res["dyn"], n if k[0] != "std::default::Default" else 0), strip_nv(res["static"], n)
                if rd == rs_:
                    v, d = PROVED, ""
                elif has_top(tuple(rd)) or has_top(tuple(rs_)):
                    v, d = UNDECIDED, "abstract results contain top"
                elif not definite_diff_outcomes(rd, rs_):
                    v, d = UNDECIDED, "results differ only where one side is an uninterpreted call: %s" % first_diff(rd, rs_)
                else:
                    v, d = REFUTED, "Lut and StaticLut give different abstract results: %s" % first_diff(rd, rs_)
            except Undecided as e:
                v, d = UNDECIDED, e.cause
            chk.add("C10.S", key, v, d, where=where_of(ts[k]))
    # ------------------------------------------------------------------ C10.W counts on small windows
    bdd_windows(chk, env)
    # ------------------------------------------------------------------ C10.X canonizations on small windows
    from .C04 import canon_plans, canon_eval, CANON_METHOD
    for which, n, window, stub in canon_plans(chk.tier):
        key = "%s n=%d, table bits %s symbolic%s: same table and certificate from both types" % (CANON_METHOD[which], n, "all" if len(window) == 1 << n else list(window), " (short generator cycle)" if stub else "")
        try:
            rd, rs_ = canon_eval(env, "dyn", which, n, window, stub), canon_eval(env, "static", which, n, window, stub)
            v, d = PROVED, ""
            for r_ in range(1 << len(window)):
                if rd[r_] != rs_[r_]:
                    f_ = sum(((r_ >> j) & 1) << p_ for j, p_ in enumerate(window))

                    def show(x):
                        return "panic (%s)" % x[1] if x[0] == "panic" else "table %#x perm %s mask %s" % (x[1], list(x[2]) if x[2] is not None else None, x[3])
                    v, d = REFUTED, "for the table %#x Lut returns %s, LutN returns %s" % (f_, show(rd[r_]), show(rs_[r_]))
                    break
        except Undecided as e:
            v, d = UNDECIDED, e.cause
        chk.add("C10.X", key, v, d, where=where_of(env.kinds["static"].methods[CANON_METHOD[which]]))
    # ------------------------------------------------------------------ C10.C conversions
    for b, sty, tr in facts.trait_impl_methods("std::convert::"):
        label = "<%s as %s>::%s" % (sty["s"], tr["s"], b["name"])
        src = tr["args"][1] if len(tr["args"]) > 1 else None
        if src is None:
            continue
        # TryFrom<Lut> for StaticLut<N,T>
        if tr["path"] == "std::convert::TryFrom" and sty.get("path") == "static_lut::StaticLut" and src.get("path") == "lut::Lut":
            for N in range(0, nmax + 1):
                for m in sorted({0, N - 1, N, N + 1, 6, 7} - {-1}):
                    key = "%s N=%d from %d vars" % (label, N, m)
                    try:
                        it = env.interp()
                        st = State()
                        lut = KD.mk(st, m, sym_words(m, "a"))
                        outs = it.call_body(b, [lut], st, {"N": N, "T": table_words(N)})
                        o, v, d = single_return(outs)
                        if o is not None:
                            r = o.value
                            if not isinstance(r, Agg) or r.key != RESULT:
                                v, d = UNDECIDED, "result is %r" % (r,)
                            elif m != N:
                                v, d = (PROVED, "") if r.variant == 1 else (REFUTED, "conversion of a %d-variable Lut to Lut%d succeeds" % (m, N))
                            elif r.variant != 0:
                                v, d = REFUTED, "conversion of a %d-variable Lut to Lut%d fails" % (m, N)
                            else:
                                v, d = check_table_value(env, "static", it, o.state, r.fields[0], N, S.identity(N), o.pc)
                    except Undecided as e:
                        v, d = UNDECIDED, e.cause
                    chk.add("C10.C", key, v, d, where=where_of(b))
        elif tr["path"] == "std::convert::From" and sty.get("path") == "lut::Lut" and src.get("path") == "static_lut::StaticLut":
            for N in range(0, nmax + 1):
                key = "%s N=%d" % (label, N)
                try:
                    it = env.interp()
                    st = State()
                    sl = KS.mk(st, N, sym_words(N, "a"))
                    outs = it.call_body(b, [sl], st, {"N": N, "T": table_words(N)})
                    o, v, d = single_return(outs)
                    if o is not None:
                        v, d = check_table_value(env, "dyn", it, o.state, o.value, N, S.identity(N), o.pc)
                except Undecided as e:
                    v, d = UNDECIDED, e.cause
                chk.add("C10.C", key, v, d, where=where_of(b))
        elif tr["path"] == "std::convert::From" and sty.get("path") == "static_lut::StaticLut" and src["k"] == "uint":
            N = sty["args"][0]["c"]["v"]
            key = "%s" % label
            try:
                if src["w"] != (1 << N):
                    v, d = REFUTED, "integer of %d bits converted to a %d-variable table" % (src["w"], N)
                else:
                    it = env.interp()
                    st = State()
                    outs = it.call_body(b, [watoms(src["w"], "a")], st, {})
                    o, v, d = single_return(outs)
                    if o is not None:
                        v, d = check_table_value(env, "static", it, o.state, o.value, N, S.identity(N), o.pc)
            except Undecided as e:
                v, d = UNDECIDED, e.cause
            chk.add("C10.C", key, v, d, where=where_of(b))
        elif tr["path"] == "std::convert::From" and sty["k"] == "uint" and src.get("path") == "static_lut::StaticLut":
            N = src["args"][0]["c"]["v"]
            key = "%s" % label
            try:
                if sty["w"] != (1 << N):
                    v, d = REFUTED, "%d-variable table converted to an integer of %d bits" % (N, sty["w"])
                else:
                    it = env.interp()
                    st = State()
                    sl = KS.mk(st, N, sym_words(N, "a"))
                    outs = it.call_body(b, [sl], st, {})
                    o, v, d = single_return(outs)
                    if o is not None:
                        r = o.value
                        if not isinstance(r, W) or r.width != sty["w"]:
                            v, d = UNDECIDED, "result %r" % (r,)
                        else:
                            v, d = compare_bits(r.all_bits(), [B.atom("a[%d]" % p) for p in range(sty["w"])], o.pc)
            except Undecided as e:
                v, d = UNDECIDED, e.cause
            chk.add("C10.C", key, v, d, where=where_of(b))
    nconv = sum(1 for o in chk.obls if o["rule"] == "C10.C")
    chk.floor("C10.C conversions", nconv, 8 + 2 * (nmax + 1))
    if chk.tier == "thorough":
        from .. import witnesses
        witnesses.run(chk, "C10", ["W2", "W3"])
    chk.notes["n_range"] = [0, nmax]
    from ..history import history_rule
    history_rule(chk, "C10.H", F.load("dbg"))


def strip_nv(rs, n):
    """the dynamic table carries num_vars = n; drop it after checking it"""
    def walk(c):
        if isinstance(c, tuple):
            if c and c[0] == "Table":
                nv = c[1]
                if nv is not None and nv != ("W", 64, n):
                    return ("Table", ("bad-num-vars", nv), c[2])
                return ("Table", None, tuple(walk(x) for x in c[2]))
            return tuple(walk(x) for x in c)
        return c
    return [walk(r) for r in rs]


def _has_uf(x):
    if isinstance(x, (tuple, list)):
        if len(x) >= 2 and x[0] == "Opaque" and x[1] == "uf":
            return True
        return any(_has_uf(y) for y in x)
    return False


def definite_diff(a, b):
    """is there a differing component in which no uninterpreted call takes part?  (an uninterpreted call on one
    side against a modelled value on the other decides nothing)"""
    def is_uf(x):
        return isinstance(x, (tuple, list)) and len(x) >= 2 and x[0] == "Opaque" and x[1] == "uf"
    if is_uf(a) or is_uf(b):
        return False
    if type(a) != type(b) or not isinstance(a, (tuple, list)):
        return a != b and not _has_uf(a) and not _has_uf(b)
    if len(a) != len(b):
        return not _has_uf(a) and not _has_uf(b)
    if len(a) >= 2 and a[0] == "Opaque" and (a[1] == "uf" or b[1] == "uf"):
        return False
    return any(definite_diff(x, y) for x, y in zip(a, b) if x != y)


def definite_diff_outcomes(ra, rb):
    """two lists of abstract outcomes (kind, path condition, value ...) differ *definitely* only when they split the
    inputs the same way (same number of paths with the same conditions) and some aligned pair differs definitely - or
    when one side always panics and the other never does.  One body returning along three paths and the other through
    a comparison summary is a difference of representation, which decides nothing."""
    ka, kb = {o[0] for o in ra}, {o[0] for o in rb}
    if ka and kb and ((ka == {"panic"} and kb == {"return"}) or (ka == {"return"} and kb == {"panic"})):
        return True
    if len(ra) != len(rb):
        return False
    for x, y in zip(ra, rb):
        if x[1] != y[1]:
            return False
    return definite_diff(tuple(ra), tuple(rb))


def first_diff(a, b, path="result"):
    if type(a) != type(b):
        return "%s: %s vs %s" % (path, str(a)[:80], str(b)[:80])
    if isinstance(a, (tuple, list)):
        if len(a) != len(b):
            return "%s: %d vs %d components" % (path, len(a), len(b))
        for i, (x, y) in enumerate(zip(a, b)):
            if x != y:
                return first_diff(x, y, "%s.%d" % (path, i))
        return path
    if a != b:
        def show(x):
            if isinstance(x, tuple) and len(x) == 2 and isinstance(x[0], tuple):
                return B.describe(x)
            return str(x)[:80]
        return "%s: %s vs %s" % (path, show(a), show(b))
    return path


def bdd_windows(chk, env):
    """C10.W: bdd_complexity of both types with the counting kernel *interpreted* (window mode: symbolic tables of 2 and
    3 variables, at most 8 atoms; sort / dedup / retain semantic) on [f], [f, f], [f, !f], [f, g]: the two summaries are
    evaluated on every choice of the tables and must give the same count.  (C10.S only shows that both types hand the
    same arguments to the kernel; a different decomposition of the count - per function instead of shared - is caught
    here.)"""
    import itertools as _it
    from ..absint import new_cell
    cases = [(2, ("f",)), (2, ("f", "f")), (2, ("f", "~f")), (2, ("f", "g")), (3, ("f",)), (3, ("f", "f")), (3, ("f", "~f")), (1, ("f", "g", "f"))]
    for n, names in cases:
        key = "bdd_complexity on %s, n=%d" % ("[" + ", ".join(names) + "]", n)
        try:
            base = sorted({nm.lstrip("~") for nm in names})
            atoms = ["%s[%d]" % (nm, p_) for nm in base for p_ in range(1 << n)]
            summaries = {}
            for kind in ("dyn", "static"):
                K = env.kinds[kind]
                b = K.methods.get("bdd_complexity")
                if b is None:
                    raise Undecided("bdd_complexity not found for %s" % K.adt)
                it = env.interp(max_paths=20000)
                it.max_steps = 5000000
                it.prune = True
                it.split_all = True
                it.cmp_split = True
                space = Space(atoms)
                it.space = space
                st = State()
                tabs = []
                for nm in names:
                    words = sym_words(n, nm.lstrip("~"))
                    if nm.startswith("~"):
                        words = [W(64, bits=[B.bnot(x) if p_ < (1 << n) else x for p_, x in enumerate(w_.all_bits())]) for w_ in words]
                    tabs.append(K.mk(st, n, words))
                cell = new_cell()
                st.mem[cell] = Arr(tabs)
                with space:
                    outs = it.call_body(b, [Ptr(cell, (), (0, len(tabs)))], st, K.env(n))
                owner = {}
                for o in outs:
                    m_ = space.pc_mask(o.pc)
                    if m_ is None:
                        raise Undecided("path condition with top")
                    val = ("panic", o.info.get("msg")) if o.kind != "return" else (("value", o.value.val) if isinstance(o.value, W) and o.value.val is not None else None)
                    if val is None and m_:
                        raise Undecided("symbolic count")
                    while m_:
                        low = m_ & -m_
                        owner.setdefault(low.bit_length() - 1, []).append(val)
                        m_ ^= low
                summaries[kind] = owner
            v, d = PROVED, ""
            for r_ in range(1 << len(atoms)):
                a_, b_ = summaries["dyn"].get(r_, []), summaries["static"].get(r_, [])
                if len(a_) != 1 or len(b_) != 1:
                    v, d = UNDECIDED, "%d / %d paths enabled" % (len(a_), len(b_))
                    break
                if a_[0] != b_[0]:
                    tabs_ = {nm: "".join(str((r_ >> (k_ * (1 << n) + p_)) & 1) for p_ in range(1 << n)) for k_, nm in enumerate(base)}
                    v, d = REFUTED, "for %s (truth tables, assignment 0 first) Lut::bdd_complexity gives %s and LutN::bdd_complexity gives %s" % (tabs_, a_[0][1], b_[0][1])
                    break
        except Undecided as e:
            v, d = UNDECIDED, e.cause
        chk.add("C10.W", key, v, d, where=where_of(env.kinds["static"].methods["bdd_complexity"]) if "bdd_complexity" in env.kinds["static"].methods else None)
