"""C03 - flip, swap, swap_adjacent, cofactors, from_cofactors are exact (bitflow, E4).

Obligation = (type, method, n, indices): the abstract result of the public method on a table of
symbolic bits equals the specification bit for bit; copying forms leave the receiver unchanged.
"""
from .. import facts as F
from .. import specs as S
from ..harness import *

LEVEL = "proof"


def regime(i, j=None):
    if j is None:
        return "in-word" if i <= 5 else "word"
    hi, lo = max(i, j), min(i, j)
    if hi <= 5:
        return "in-word"
    if lo <= 5:
        return "cross"
    return "word"


def call_unary(env, kind, n, mname, idx, inplace):
    """-> (verdict, detail, result bits, receiver bits after)"""
    K = env.kinds[kind]
    it = env.interp()
    st = State()
    lut = K.mk(st, n, sym_words(n, "a"))
    p = K.place(st, lut)
    outs = it.call_body(K.method(mname), [p] + [usize(x) for x in idx], st, K.env(n))
    o, v, d = single_return(outs)
    if o is None:
        return v, d, None, None, ()
    after = bits_of_table(K.words(it, o.state, it.read_ptr(o.state, p)), n)
    if inplace:
        return PROVED, "", after, after, o.pc
    res = bits_of_table(K.words(it, o.state, o.value), n)
    return PROVED, "", res, after, o.pc


def run(chk):
    facts = F.load("dbg")
    env = Env(facts)
    nmax = 12
    regimes = {}
    chk.trust("rustc MIR construction and constant evaluation (nightly 1.97)")
    chk.trust("std summaries in analysis/stdmodel.py (slice iterators, swap, clone, Box/array views)")
    chk.trust("specification generators in analysis/specs.py (transcription of the property statement)")
    chk.assume("input tables are well formed (no bit at or above 2^n): property C02")
    chk.assume("cross-word and word regimes are decided for the listed n only (loops unrolled, mode=unrolled); n above %d: same code path, not claimed" % nmax)
    count = 0
    runs = [("dyn", env), ("static", env)]
    if chk.tier == "thorough":
        env_rel = Env(F.load("rel"))     # release configuration: debug assertions and overflow checks off
        runs += [("dyn", env_rel), ("static", env_rel)]
    for kind, env in runs:
        K = env.kinds[kind]
        cfg_tag = "" if env.facts.cfg == "dbg" else " [rel]"
        for n in range(1, nmax + 1):
            # ---- flip
            for i in range(n):
                for mname, inplace in (("flip_inplace", True), ("flip", False)):
                    key = "%s::%s n=%d i=%d%s" % (K.adt, mname, n, i, cfg_tag)
                    try:
                        v, d, res, after, pc = call_unary(env, kind, n, mname, [i], inplace)
                        if v == PROVED:
                            v, d = compare_bits(res, S.flip(n, i), pc)
                            if v == PROVED and not inplace:
                                v, d = compare_bits(after, S.identity(n), pc)
                                d = d and "receiver modified: " + d
                    except Undecided as e:
                        v, d = UNDECIDED, e.cause
                    chk.add("C03.flip", key, v, d, where=where_of(K.method(mname)),
                            sample=dict(obligation=key, regime=regime(i), mode="unrolled", verdict=v) if count % 97 == 0 else None)
                    count += 1
                    regimes[regime(i)] = regimes.get(regime(i), 0) + 1
            # ---- swap
            for i in range(n):
                for j in range(n):
                    for mname, inplace in (("swap_inplace", True), ("swap", False)):
                        if not inplace and chk.tier == "quick" and n > 6 and (i + j) % 2:
                            continue  # copying form = clone + in-place (checked for half the pairs in quick)
                        key = "%s::%s n=%d i=%d j=%d%s" % (K.adt, mname, n, i, j, cfg_tag)
                        try:
                            v, d, res, after, pc = call_unary(env, kind, n, mname, [i, j], inplace)
                            if v == PROVED:
                                v, d = compare_bits(res, S.swap(n, i, j), pc)
                                if v == PROVED and not inplace:
                                    v, d = compare_bits(after, S.identity(n), pc)
                                    d = d and "receiver modified: " + d
                        except Undecided as e:
                            v, d = UNDECIDED, e.cause
                        chk.add("C03.swap", key, v, d, where=where_of(K.method(mname)),
                                sample=dict(obligation=key, regime=regime(i, j), verdict=v) if count % 97 == 0 else None)
                        count += 1
                        if i != j:
                            regimes["swap-" + regime(i, j)] = regimes.get("swap-" + regime(i, j), 0) + 1
            # ---- swap_adjacent
            for i in range(n - 1):
                for mname, inplace in (("swap_adjacent_inplace", True), ("swap_adjacent", False)):
                    key = "%s::%s n=%d i=%d%s" % (K.adt, mname, n, i, cfg_tag)
                    try:
                        v, d, res, after, pc = call_unary(env, kind, n, mname, [i], inplace)
                        if v == PROVED:
                            v, d = compare_bits(res, S.swap(n, i, i + 1), pc)
                            if v == PROVED and not inplace:
                                v, d = compare_bits(after, S.identity(n), pc)
                                d = d and "receiver modified: " + d
                    except Undecided as e:
                        v, d = UNDECIDED, e.cause
                    chk.add("C03.swap_adjacent", key, v, d, where=where_of(K.method(mname)))
                    count += 1
            # ---- cofactors / from_cofactors / round trip
            for i in range(n):
                key = "%s::cofactors n=%d i=%d%s" % (K.adt, n, i, cfg_tag)
                try:
                    it = env.interp()
                    st = State()
                    p = K.place(st, K.mk(st, n, sym_words(n, "a")))
                    outs = it.call_body(K.method("cofactors"), [p, usize(i)], st, K.env(n))
                    o, v, d = single_return(outs)
                    if o is not None:
                        c0, c1 = o.value.fields
                        b0 = bits_of_table(K.words(it, o.state, c0), n)
                        b1 = bits_of_table(K.words(it, o.state, c1), n)
                        v, d = compare_bits(b0, S.cofactor0(n, i), o.pc)
                        if v == PROVED:
                            v, d = compare_bits(b1, S.cofactor1(n, i), o.pc)
                        if v == PROVED:
                            v, d = compare_bits(bits_of_table(K.words(it, o.state, it.read_ptr(o.state, p)), n), S.identity(n), o.pc)
                            d = d and "receiver modified: " + d
                        if v == PROVED:
                            # Shannon recomposition of the two results gives back f
                            p0, p1 = K.place(o.state, c0), K.place(o.state, c1)
                            outs2 = it.call_body(K.method("from_cofactors"), [p0, p1, usize(i)], o.state, K.env(n))
                            o2, v, d = single_return(outs2)
                            if o2 is not None:
                                v, d = compare_bits(bits_of_table(K.words(it, o2.state, o2.value), n), S.identity(n), o2.pc)
                                d = d and "from_cofactors(cofactors(f)) != f: " + d
                except Undecided as e:
                    v, d = UNDECIDED, e.cause
                chk.add("C03.cofactors", key, v, d, where=where_of(K.method("cofactors")))
                key = "%s::from_cofactors n=%d i=%d%s" % (K.adt, n, i, cfg_tag)
                try:
                    it = env.interp()
                    st = State()
                    p0 = K.place(st, K.mk(st, n, sym_words(n, "c0")))
                    p1 = K.place(st, K.mk(st, n, sym_words(n, "c1")))
                    outs = it.call_body(K.method("from_cofactors"), [p0, p1, usize(i)], st, K.env(n))
                    o, v, d = single_return(outs)
                    if o is not None:
                        v, d = compare_bits(bits_of_table(K.words(it, o.state, o.value), n), S.from_cofactors(n, i), o.pc)
                except Undecided as e:
                    v, d = UNDECIDED, e.cause
                chk.add("C03.from_cofactors", key, v, d, where=where_of(K.method("from_cofactors")))
                count += 2
    if chk.tier == "quick":
        # larger strides of the word regime (n = 9, 10): swap / swap_adjacent / flip with both indices above 5
        for kind in ("dyn", "static"):
            K = env.kinds[kind]
            extra = [("swap_inplace", 9, [6, 7]), ("swap_inplace", 9, [8, 6]), ("swap_inplace", 9, [7, 8]), ("swap_inplace", 10, [7, 9]), ("swap_inplace", 10, [9, 8]), ("swap_inplace", 10, [3, 9]),
                     ("swap_adjacent_inplace", 9, [6]), ("swap_adjacent_inplace", 9, [7]), ("swap_adjacent_inplace", 10, [7]), ("swap_adjacent_inplace", 10, [8]), ("swap_adjacent", 10, [8]),
                     ("flip_inplace", 9, [8]), ("flip_inplace", 10, [7]), ("flip_inplace", 10, [9])]
            for mname, n, idx in extra:
                key = "%s::%s n=%d idx=%s%s" % (K.adt, mname, n, idx, cfg_tag)
                try:
                    v, d, res, after, pc = call_unary(env, kind, n, mname, idx, mname.endswith("inplace"))
                    if v == PROVED:
                        exp = S.flip(n, idx[0]) if mname.startswith("flip") else (S.swap(n, idx[0], idx[1]) if len(idx) == 2 else S.swap(n, idx[0], idx[0] + 1))
                        v, d = compare_bits(res, exp, pc)
                except Undecided as e:
                    v, d = UNDECIDED, e.cause
                chk.add("C03.large-stride", key, v, d, where=where_of(K.method(mname)))
            for n, i in ((9, 8), (10, 7), (10, 9)):
                key = "%s::from_cofactors n=%d i=%d%s" % (K.adt, n, i, cfg_tag)
                try:
                    it = env.interp()
                    st = State()
                    p0 = K.place(st, K.mk(st, n, sym_words(n, "c0")))
                    p1 = K.place(st, K.mk(st, n, sym_words(n, "c1")))
                    outs = it.call_body(K.method("from_cofactors"), [p0, p1, usize(i)], st, K.env(n))
                    o, v, d = single_return(outs)
                    if o is not None:
                        v, d = compare_bits(bits_of_table(K.words(it, o.state, o.value), n), S.from_cofactors(n, i), o.pc)
                except Undecided as e:
                    v, d = UNDECIDED, e.cause
                chk.add("C03.large-stride", key, v, d, where=where_of(K.method("from_cofactors")))
                key = "%s::cofactors n=%d i=%d%s" % (K.adt, n, i, cfg_tag)
                try:
                    it = env.interp()
                    st = State()
                    p = K.place(st, K.mk(st, n, sym_words(n, "a")))
                    outs = it.call_body(K.method("cofactors"), [p, usize(i)], st, K.env(n))
                    o, v, d = single_return(outs)
                    if o is not None:
                        c0, c1 = o.value.fields
                        v, d = compare_bits(bits_of_table(K.words(it, o.state, c0), n), S.cofactor0(n, i), o.pc)
                        if v == PROVED:
                            v, d = compare_bits(bits_of_table(K.words(it, o.state, c1), n), S.cofactor1(n, i), o.pc)
                except Undecided as e:
                    v, d = UNDECIDED, e.cause
                chk.add("C03.large-stride", key, v, d, where=where_of(K.method("cofactors")))
    chk.notes["regimes"] = regimes
    chk.notes["n_range"] = [1, nmax]
    chk.notes["mode"] = "tables of symbolic bits; loops unrolled for each concrete n (mode=unrolled)"
    chk.floor("C03.entry-points", len([1 for k in ("dyn", "static") for m in ("flip_inplace", "flip", "swap_inplace", "swap", "swap_adjacent_inplace", "swap_adjacent", "cofactors", "from_cofactors") if m in env.kinds[k].methods]), 16)
    from ..history import history_rule
    history_rule(chk, "C03.H", F.load("dbg"))
