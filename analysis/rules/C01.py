"""C01 - NOT/AND/OR/XOR in every syntactic form are exact pointwise operations.

C01.K  (bitflow) every discovered form, on tables of symbolic bits, returns a op b bit for bit
       (NOT re-masked above 2^n), with the right size, and leaves borrowed operands unchanged.
C01.F  every form is discovered from the trait/inherent impls of the two public table types; the
       number of forms per operator must not fall below the count of the pinned tree.
"""
from .. import facts as F
from .. import specs as S
from ..harness import *

LEVEL = "proof"

TRAITS = {
    "std::ops::Not": ("not", 1, False),
    "std::ops::BitAnd": ("and", 2, False),
    "std::ops::BitOr": ("or", 2, False),
    "std::ops::BitXor": ("xor", 2, False),
    "std::ops::BitAndAssign": ("and", 2, True),
    "std::ops::BitOrAssign": ("or", 2, True),
    "std::ops::BitXorAssign": ("xor", 2, True),
}
METHODS = {
    "not": ("not", 1, False), "and": ("and", 2, False), "or": ("or", 2, False), "xor": ("xor", 2, False),
    "not_inplace": ("not", 1, True), "and_inplace": ("and", 2, True), "or_inplace": ("or", 2, True), "xor_inplace": ("xor", 2, True),
}


def self_adt(ty):
    if ty["k"] == "ref":
        ty = ty["t"]
    return ty.get("path") if ty["k"] == "adt" else None


def discover_forms(env, kind):
    K = env.kinds[kind]
    forms = []
    for name, (op, ar, inplace) in METHODS.items():
        b = K.methods.get(name)
        if b is None:
            raise KeyError("anchor-missing: %s::%s" % (K.adt, name))
        forms.append((b, op, ar, inplace, "%s::%s" % (K.adt, name)))
    for b, sty, tr in env.facts.trait_impl_methods("std::ops::"):
        if tr["path"] in TRAITS and self_adt(sty) == K.adt:
            op, ar, inplace = TRAITS[tr["path"]]
            label = "<%s as %s>::%s" % (sty["s"], tr["s"], b["name"])
            forms.append((b, op, ar, inplace, label))
    return forms


def run(chk):
    facts = F.load("dbg")
    env = Env(facts)
    # every size the const-generic aliases offer (Lut0..Lut12); the dynamic Lut also at 13..14 in the thorough tier
    nmax = 12
    chk.trust("rustc MIR construction and constant evaluation (nightly 1.97)")
    chk.trust("std summaries in analysis/stdmodel.py")
    chk.trust("specification generators in analysis/specs.py")
    chk.assume("operand tables are well formed (C02) and of the same size; size mismatches are C17")
    per_op = {}
    # the thorough tier also analyses the release configuration (debug assertions and overflow checks off)
    runs = [("dyn", env, ""), ("static", env, "")]
    if chk.tier == "thorough":
        env_rel = Env(F.load("rel"))
        runs += [("dyn", env_rel, " [rel]"), ("static", env_rel, " [rel]")]
    for kind, env, tag in runs:
        K = env.kinds[kind]
        forms = discover_forms(env, kind)
        for b, op, ar, inplace, label in forms:
            if not tag:
                per_op[(kind, op)] = per_op.get((kind, op), 0) + 1
            for n in range(0, (14 if chk.tier == "thorough" and kind == "dyn" else nmax) + 1):
                key = "%s n=%d%s" % (label, n, tag)
                try:
                    it, outs, ops = call_with_tables(env, kind, b, n, ["a", "b"])
                    live, v, d = all_returns(outs)
                    exp = S.bnot(n) if op == "not" else S.binop(n, op)
                    verdicts = []
                    for o in (live or []):
                        if inplace:
                            if ops[0]["ptr"] is None:
                                v1, d1 = UNDECIDED, "in-place form without a receiver reference"
                            else:
                                v1, d1 = check_table_value(env, kind, it, o.state, it.read_ptr(o.state, ops[0]["ptr"]), n, exp, o.pc)
                        else:
                            v1, d1 = check_table_value(env, kind, it, o.state, o.value, n, exp, o.pc)
                        # borrowed operands unchanged
                        for k, opd in enumerate(ops):
                            if v1 != PROVED:
                                break
                            if opd["ptr"] is not None and not (inplace and k == 0):
                                v1, d1 = check_table_value(env, kind, it, o.state, it.read_ptr(o.state, opd["ptr"]), n, S.identity(n, opd["name"]), o.pc)
                                d1 = d1 and "borrowed operand %s modified: %s" % (opd["name"], d1)
                        verdicts.append((v1, d1))
                    for want in (REFUTED, UNDECIDED):
                        hit = [x for x in verdicts if x[0] == want]
                        if hit:
                            v, d = hit[0]
                            break
                except Undecided as e:
                    v, d = UNDECIDED, e.cause
                chk.add("C01.K", key, v, d, where=where_of(b),
                        sample=dict(form=label, n=n, operator=op, verdict=v) if n == 3 and len(chk.samples) < 10 else None)
    # C01.A: both operands the *same object* (`&a op &a`): forms taking two shared references must not rely on the
    # operands being distinct (a op a: and/or give a, xor gives the constant zero)
    for kind, env_, tag in runs:
        if tag:
            continue
        K = env_.kinds[kind]
        for b, op, ar, inplace, label in discover_forms(env_, kind):
            ins = b["sig"]["inputs"]
            if ar != 2 or inplace or not all(t_["k"] == "ref" and not t_["mut"] for t_ in ins):
                continue
            for n in (0, 3, 6, 7):
                key = "%s n=%d with both operands the same object" % (label, n)
                try:
                    it = env_.interp()
                    st = State()
                    pa = K.place(st, K.mk(st, n, sym_words(n, "a")))
                    outs = it.call_body(b, [pa, pa], st, K.env(n))
                    o, v, d = single_return(outs)
                    if o is not None:
                        exp = S.const(n, 0) if op == "xor" else S.identity(n, "a")
                        v, d = check_table_value(env_, kind, it, o.state, o.value, n, exp, o.pc)
                        d = d and "a %s a with both references to one object: %s" % (op, d)
                        if v == PROVED:
                            v, d = check_table_value(env_, kind, it, o.state, it.read_ptr(o.state, pa), n, S.identity(n, "a"), o.pc)
                            d = d and "the shared operand is modified: " + d
                except Undecided as e:
                    v, d = UNDECIDED, e.cause
                chk.add("C01.A", key, v, d, where=where_of(b))
    # C01.F: sibling count per operator (pinned: not 4 forms, and/or/xor 8 forms each, per type)
    for kind in ("dyn", "static"):
        for op, fl in (("not", 4), ("and", 8), ("or", 8), ("xor", 8)):
            chk.floor("C01.F forms %s %s" % (kind, op), per_op.get((kind, op), 0), fl)
    chk.notes["forms"] = {"%s %s" % k: v for k, v in per_op.items()}
    chk.notes["n_range"] = [0, nmax] if chk.tier == "quick" else {"static": [0, 12], "dyn": [0, 14]}
    if chk.tier == "thorough":
        from .. import witnesses
        witnesses.run(chk, "C01", ['W4'])
    from ..history import history_rule
    history_rule(chk, "C01.H", F.load("dbg"))
