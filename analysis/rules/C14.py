"""C14 - Sop operations preserve meaning and return containment-irredundant covers.

Containers of symbolic length with opaque cube predicates (value, is_zero, implies, ==, products):
  C14.V  value is the OR over all cubes; conversion to Lut tabulates it; is_zero/is_one sound.
  C14.M  every form of | and & runs the simplification last, on the container it returns
         (nothing is added afterwards).
  C14.A  | keeps every cube of both operands; & forms every pairwise product (a product may be
         skipped only on the path where it is the zero cube).
  C14.S  simplification: on every *realisable* valuation of the opaque predicates (implication reflexive,
         transitive, never towards a cube that sorts later) the kept cubes are exactly the non-zero cubes
         that imply no other cube of the list.
  C14.R  real cubes over a two-variable window (window mode): |, & and ! preserve the meaning and return an
         irredundant cover on every canonical choice of operand cubes (sort / dedup / absorption run on the
         cubes' own order and predicates).
  C14.N  complement: starts from the constant one and, for every cube, ANDs the sum of the
         complemented literals (positive literal -> inverted variable, negative -> plain).
  C14.L  Lut -> Sop emits exactly the minterms of the true assignments (n <= 3, every abstract path).
Not decided: irredundancy and meaning beyond the window sizes of C14.R for arbitrary numbers of cubes (there the
argument is C14.M + C14.S + the absorption lemma c implies o => c | o = o).
"""
import itertools

from .. import facts as F
from ..harness import *
from ..cubemodel import CubeModel, arg_for, CUBE
from ..sopmodel import *
from .C13 import reduction_rules, stub_simplify

LEVEL = "other"


def find_simplify(C):
    out = []
    for name, b in C.methods.items():
        ins = b["sig"]["inputs"]
        if b["vis"] != "pub" and len(ins) == 1 and ins[0]["k"] == "ref" and ins[0]["mut"] and b["sig"]["output"]["s"] == "()":
            out.append(b)
    return out


def install_product_stub(it, facts, C):
    """cube products become opaque elements named (x*y)"""
    def prod(interp, fr, args, st, pc, t):
        x, y = deref(interp, st, args[0]), deref(interp, st, args[1])
        return [Outcome("return", st, pc, C.elem_value("(%s*%s)" % (elem_name(x) or "K", elem_name(y) or "K")))]
    for bd, sty, tr in facts.trait_impl_methods("std::ops::BitAnd"):
        base = sty["t"] if sty["k"] == "ref" else sty
        if base.get("path") == C.elem:
            it.opaque_fns[bd["key"]] = prod


def run(chk):
    facts = F.load("dbg")
    chk.trust("rustc MIR construction; std summaries (retain/all/any call their closure on every element; sort and dedup are recorded, not modelled)")
    chk.trust("lemma: removing a cube that implies another cube of the same sum does not change the function")
    chk.assume("containers analysed for lengths 0..3")
    C = reduction_rules(chk, facts, SOP, "or", "C14.V", "std::ops::BitOr")
    cm = CubeModel(facts)
    env = Env(facts)
    simp = find_simplify(C)
    if len(simp) != 1:
        chk.undecided("C14.M", "simplification routine", "%d candidate private &mut self methods" % len(simp))
        return
    simp = simp[0]
    # ------------------------------------------------------------------ C14.M / C14.A
    for trait, opname in (("std::ops::BitOr", "or"), ("std::ops::BitAnd", "and")):
        forms = [(bd, "<%s as %s>::%s" % (sty["s"], tr["s"], bd["name"])) for bd, sty, tr in facts.trait_impl_methods(trait) if (sty["t"] if sty["k"] == "ref" else sty).get("path") == SOP]
        chk.floor("C14 %s forms" % opname, len(forms), 4)
        for bd, label in forms:
            for La, Lb in ((1, 1), (2, 1), (2, 2), (0, 2)):
                key = "%s with %d,%d cubes" % (label, La, Lb)
                try:
                    it = Interp(facts, max_paths=4096)
                    install_stubs(it, facts, C.elem)
                    install_product_stub(it, facts, C)
                    snaps = []

                    def simp_stub(interp, fr, args, st, pc, t, snaps=snaps):
                        cont = interp.read_ptr(st, args[0])
                        st.mem[("simplified", cont.fields[C.cv].cell)] = Opaque("snap", (tuple(elem_name(c) for c in C.cubes(interp, st, cont)),))
                        return [Outcome("return", st, pc, Agg("tuple", None, 0, ()))]
                    it.opaque_fns[simp["key"]] = simp_stub
                    st = State()
                    na, nb_ = ["a%d" % j for j in range(La)], ["b%d" % j for j in range(Lb)]
                    A, Bv = C.mk(st, 4, na), C.mk(st, 4, nb_)
                    outs = it.call_body(bd, [arg_for(bd["sig"]["inputs"][0], A, st), arg_for(bd["sig"]["inputs"][1], Bv, st)], st, {})
                    v, d = PROVED, ""
                    nret = 0
                    for o in outs:
                        s_, w_ = pc_status(o.pc)
                        if s_ == "unsat":
                            continue
                        if o.kind != "return":
                            v, d = UNDECIDED, "panic path %s" % o.info.get("msg")
                            break
                        nret += 1
                        cubes = [elem_name(c) for c in C.cubes(it, o.state, o.value)]
                        cell = o.value.fields[C.cv].cell
                        snap = o.state.mem.get(("simplified", cell))
                        if snap is None:
                            v, d = REFUTED, "the result is returned without running the simplification on it"
                            break
                        if list(snap.data[0]) != cubes:
                            v, d = REFUTED, "cubes are added or removed after the simplification ran"
                            break
                        if opname == "or":
                            if sorted(cubes) != sorted(na + nb_):
                                v, d = REFUTED, "union loses or invents cubes: %s" % cubes
                                break
                        else:
                            want = ["(%s*%s)" % (x, y) for x in na for y in nb_]
                            alt = ["(%s*%s)" % (y, x) for x in na for y in nb_]
                            got = set(cubes)
                            for wn, an in zip(want, alt):
                                if wn in got or an in got:
                                    continue
                                # missing product: only allowed where the path says it is the zero cube
                                # a test on that product (== zero cube, is_zero, ...) appears on this path
                                eqs = [c for c in o.pc if isinstance(c, W) and c.val is None and c.bits[0] is not None and c.bits[0][0] and any(nm in B.ATOMS.name(x) for x in c.bits[0][0] for nm in (wn, an))]
                                # ... or one of its factors is the zero cube on this path (then the product is zero too)
                                fx, fy = wn[1:-1].split("*")
                                zero_factor = any(w_.get("is_zero(%s)" % z_) for z_ in (fx, fy)) if s_ == "sat" else False
                                if not eqs and not zero_factor:
                                    v, d = REFUTED, "the product %s is not formed" % wn
                                    break
                            if v != PROVED:
                                break
                            if len(cubes) > len(want) or any(c not in want + alt for c in cubes):
                                v, d = REFUTED, "unexpected cubes in the product: %s" % cubes
                                break
                    if v == PROVED and nret == 0:
                        v, d = UNDECIDED, "no returning path"
                except Undecided as ex:
                    v, d = UNDECIDED, ex.cause
                chk.add("C14.M", key, v, d, where=where_of(bd), sample=dict(obligation=key, verdict=v) if (La, Lb) == (2, 2) else None)
    # ------------------------------------------------------------------ C14.S simplification
    for names in [["c%d" % j for j in range(L)] for L in (0, 1, 2, 3)] + [["c0", "c0"], ["c0", "c1", "c0"], ["c1", "c0", "c1", "c0"]]:
        L = len(names)
        key = "Sop simplification of %d cubes" % L if len(set(names)) == L else "Sop simplification of repeated cubes %s" % names
        try:
            it = Interp(facts, max_paths=8192)
            install_stubs(it, facts, C.elem)
            st = State()
            v0 = C.mk(st, 4, names)
            p = new_cell()
            st.mem[p] = v0
            outs = it.call_body(simp, [Ptr(p, ())], st, {})
            v, d = PROVED, ""
            ev = getattr(it, "seq_events", [])
            nret = 0
            # what every family of real cubes satisfies (otherwise a "witness" could be unrealisable): implication is
            # reflexive and transitive, and a cube sorts after every cube it implies (its masks contain the other's;
            # the symbolic elements sort by name), so a cube never implies a different one that sorts later
            dn = sorted(set(names))
            imp_b = lambda x, y: B.atom("implies(%s,%s)" % (x, y))
            axioms = [W(1, bits=[imp_b(x, x)]) for x in dn]
            axioms += [W(1, bits=[B.bnot(imp_b(x, y))]) for x in dn for y in dn if x < y]
            axioms += [W(1, bits=[B.bor(B.bnot(B.band(imp_b(x, y), imp_b(y, z))), imp_b(x, z))]) for x in dn for y in dn for z in dn if len({x, y, z}) == 3]
            sp_names = ["is_zero(%s)" % x for x in dn] + ["implies(%s,%s)" % (x, y) for x in dn for y in dn]
            space = Space(sp_names, axioms)
            covered = 0
            for o in outs:
                m_ = space.pc_mask(o.pc)
                if m_ is None:
                    v, d = UNDECIDED, "path condition outside the predicate universe"
                    break
                if not m_:
                    continue
                if o.kind != "return":
                    v, d = UNDECIDED, "path not decided"
                    break
                nret += 1
                kept = [elem_name(c) for c in C.cubes(it, o.state, it.read_ptr(o.state, Ptr(p, ())))]
                # every realisable valuation of the predicates on this path
                while m_ and v == PROVED:
                    low = m_ & -m_
                    r_ = low.bit_length() - 1
                    m_ ^= low
                    covered += 1
                    w_ = {nm: (r_ >> j) & 1 for j, nm in enumerate(sp_names)}
                    z = {nm: w_["is_zero(%s)" % nm] for nm in names}
                    alive = sorted({nm for nm in names if not z[nm]})
                    imp = lambda x, y: w_["implies(%s,%s)" % (x, y)]
                    want = [x for x in alive if not any(y != x and imp(x, y) for y in alive)]
                    if sorted(kept) != want:
                        why = "keeps %s, expected %s when zero cubes are %s and implications are %s" % (kept, want, [n_ for n_ in dn if z[n_]], [k for k, val in w_.items() if k.startswith("implies") and val and k.split("(")[1].split(",")[0] != k.split(",")[1][:-1]])
                        v, d = REFUTED, why
                if v != PROVED:
                    break
            if v == PROVED and covered != bin(space.base).count("1"):
                v, d = UNDECIDED, "paths cover %d of %d predicate valuations" % (covered, bin(space.base).count("1"))
            if v == PROVED and nret == 0:
                v, d = UNDECIDED, "no path"
        except Undecided as ex:
            v, d = UNDECIDED, ex.cause
        chk.add("C14.S", key, v, d, where=where_of(simp), sample=dict(obligation=key, paths=nret if v == PROVED else None, verdict=v) if L == 3 else None)
    # ------------------------------------------------------------------ C14.R real cubes on a two-variable window
    real_window(chk, facts, C)
    # ------------------------------------------------------------------ C14.L Lut -> Sop
    KD = env.kinds["dyn"]
    for bd, sty, tr in facts.trait_impl_methods("std::convert::From"):
        if sty.get("path") != SOP or len(tr["args"]) < 2:
            continue
        src = tr["args"][1]
        base = src["t"] if src["k"] == "ref" else src
        if base.get("path") != "lut::Lut":
            continue
        label = "<Sop as %s>::from" % tr["s"]
        cases = [(n, None) for n in range(0, (3 if chk.tier == "quick" else 4))]
        # several 64-bit blocks: a few symbolic table bits at a time, the others 0 (so that whole blocks are empty)
        for n in range(3, (9 if chk.tier == "quick" else 11)):
            full_ = (1 << n) - 1
            pos = sorted({full_, full_ - 1, full_ >> 1, (full_ >> 1) + 1, (full_ >> 2) + 2, 1 << (n - 1), 5 & full_, 0, 64 & full_, 65 & full_, 130 & full_, 200 & full_})
            for k_ in range(0, len(pos), 3):
                cases.append((n, tuple(pos[k_:k_ + 3])))
        for n, window in cases:
            key = "%s n=%d" % (label, n) if window is None else "%s n=%d table bits %s symbolic, others 0" % (label, n, list(window))
            try:
                it = Interp(facts, max_paths=1024, max_steps=20000000)     # needs 0.2M today
                st = State()
                if window is None:
                    words, support = sym_words(n, "a"), list(range(1 << n))
                else:
                    it.prune = True
                    support = list(window)
                    words = [W(64, bits=[B.atom("a[%d]" % (w_ * 64 + p_)) if (w_ * 64 + p_) in window else ZERO for p_ in range(64)]) for w_ in range(table_words(n))]
                lut = KD.mk(st, n, words)
                outs = it.call_body(bd, [arg_for(bd["sig"]["inputs"][0], lut, st)], st, {})
                v, d = PROVED, ""
                npaths = 0
                for o in outs:
                    s_, w_ = pc_status(o.pc)
                    if s_ == "unsat":
                        continue
                    if o.kind != "return" or s_ != "sat":
                        v, d = (REFUTED, "panics: %s" % o.info.get("msg")) if (o.kind != "return" and s_ == "sat") else (UNDECIDED, "path not decided")
                        break
                    npaths += 1
                    f = [(w_.get("a[%d]" % p_) if p_ in support else 0) for p_ in range(1 << n)]
                    if any(x is None for x in f):
                        v, d = UNDECIDED, "path does not determine the function"
                        break
                    cubes = C.cubes(it, o.state, o.value)
                    got = [(cm.pos(c).val, cm.neg(c).val) for c in cubes]
                    full = (1 << n) - 1
                    want = [(m, ~m & full) for m in range(1 << n) if f[m]]
                    if sorted(got) != want:
                        fd = f if n <= 3 else "with true assignments %s" % [p_ for p_ in range(1 << n) if f[p_]]
                        v, d = REFUTED, "for the function %s the emitted cubes are %s, the minterm cover is %s" % (fd, sorted(got)[:8], want[:8])
                        break
                if v == PROVED and npaths != 1 << len(support):
                    v, d = UNDECIDED, "%d paths for %d functions" % (npaths, 1 << len(support))
            except Undecided as ex:
                v, d = UNDECIDED, ex.cause
            chk.add("C14.L", key, v, d, where=where_of(bd))
    complement_rule(chk, facts, C, cm)


def real_window(chk, facts, C):
    """C14.R: |, & and ! on Sops of real cubes over a two-variable window (analysis/window.py): meaning preserved and
    the result irredundant, on every canonical choice of operand cubes."""
    from ..window import window_op, op_forms, pick_forms, to_lut_rules
    to_lut_rules(chk, "C14.T", facts, C, "or", chk.tier)
    plan = (("std::ops::BitOr", "or", ((1, 1), (2, 1), (1, 2), (2, 2), (0, 3))),
            ("std::ops::BitAnd", "and", ((1, 1), (2, 1), (1, 2), (2, 2))),
            ("std::ops::Not", "not", ((0,), (1,), (2,), (3,))))
    for trait, opname, shapes in plan:
        for bd, label in pick_forms(op_forms(facts, trait, SOP), chk.tier):
            for lens in shapes:
                window_op(chk, "C14.R", facts, C, bd, label, lens, "or", opname, WN=2, irredundant=True, sample=(lens in ((2, 1), (2,))))
            if opname in ("or", "and"):
                # large operands: 20 fixed cubes (minterms 0..19 of five variables: part of the space stays uncovered)
                # next to one symbolic cube, on either side
                big = [(m_, ~m_ & 31) for m_ in range(20)]
                window_op(chk, "C14.R", facts, C, bd, label, (0, 1), "or", opname, WN=5, irredundant=True, fixed=[big, []])
                window_op(chk, "C14.R", facts, C, bd, label, (1, 0), "or", opname, WN=5, irredundant=True, fixed=[[], big])


def complement_rule(chk, facts, C, cm):
    """C14.N on opaque tokens: literals of a cube are opaque lists pv(c), nv(c)"""
    ms = cm.methods
    nforms = 0
    for bd, sty, tr in facts.trait_impl_methods("std::ops::Not"):
        base = sty["t"] if sty["k"] == "ref" else sty
        if base.get("path") != SOP:
            continue
        nforms += 1
        label = "<%s as Not>::not" % sty["s"]
        for L in (0, 1, 2):
            key = "%s with %d cubes" % (label, L)
            try:
                it = Interp(facts, max_paths=4096)
                install_stubs(it, facts, C.elem)
                install_product_stub(it, facts, C)
                stub_simplify(it, facts, C)

                def lits(tag):
                    def f(interp, fr, args, st, pc, t):
                        c = deref(interp, st, args[0])
                        cell = new_cell()
                        st.mem[cell] = Arr([Opaque("lit", ("%s(%s)" % (tag, elem_name(c)),))])
                        return [Outcome("return", st, pc, Opaque("slice_iter", (Ptr(cell, (), (0, 1)), wconst(64, 0), wconst(64, 1), wbool(False))))]
                    return f

                def mkvar(tag):
                    def f(interp, fr, args, st, pc, t):
                        l = deref(interp, st, args[0])
                        nm = l.data[0] if isinstance(l, Opaque) and l.kind == "lit" else "?"
                        return [Outcome("return", st, pc, C.elem_value("%s[%s]" % (tag, nm)))]
                    return f
                it.opaque_fns[ms["pos_vars"]["key"]] = lits("pv")
                it.opaque_fns[ms["neg_vars"]["key"]] = lits("nv")
                it.opaque_fns[ms["nth_var"]["key"]] = mkvar("var")
                it.opaque_fns[ms["nth_var_inv"]["key"]] = mkvar("inv")

                def one_stub(interp, fr, args, st, pc, t):
                    return [Outcome("return", st, pc, C.mk(st, 4, ["ONE"]))]
                it.opaque_fns[C.method("one")["key"]] = one_stub
                st = State()
                names = ["c%d" % j for j in range(L)]
                v0 = C.mk(st, 4, names)
                outs = it.call_body(bd, [arg_for(bd["sig"]["inputs"][0], v0, st)], st, {})
                # take the path on which no product is dropped as zero
                best = None
                for o in outs:
                    if o.kind == "return":
                        cubes = [elem_name(c) for c in C.cubes(it, o.state, o.value)]
                        if best is None or len(cubes) > len(best):
                            best = cubes
                if best is None:
                    v, d = UNDECIDED, "no returning path"
                else:
                    cur = ["ONE"]
                    for nm in names:
                        s_ = ["inv[pv(%s)]" % nm, "var[nv(%s)]" % nm]
                        cur = ["(%s*%s)" % (x, y) for x in cur for y in s_]
                    alt = None
                    if sorted(best) == sorted(cur):
                        v, d = PROVED, ""
                    else:
                        v, d = REFUTED, "complement of %d cubes yields %s, De Morgan expansion is %s" % (L, best[:6], cur[:6])
            except Undecided as ex:
                v, d = UNDECIDED, ex.cause
            except KeyError as ex:
                v, d = REFUTED, "anchor-missing: %s" % ex
            chk.add("C14.N", key, v, d, where=where_of(bd))
    chk.floor("C14.N Not forms", nforms, 2)
