"""C05 - canonization certificates (see C04.py for the engine).
C05.I/C05.K: path-policy analysis of the walks on the hard-coded sequences; C05.Q: for n = 7 (8 thorough) the
run-time generated sequences handed to the decoder are the ones the walk used and are closed cycles (the decoder
tracks the complementation mask per position, which is only valid if every flip cycle returns to the start
before the next swap)."""
from .. import facts as F
from .C04 import analyse, generated, step_kernels, canon_windows

LEVEL = "other"


def run(chk):
    analyse(chk, "C05")
    canon_windows(chk, "C05")
    generated(chk, "C05.Q")
    # the certificate decoder replays generator indices: the steps the walk applied must be those generators (n = 7, 8)
    step_kernels(chk, "C05.S")
    from ..history import history_rule
    history_rule(chk, "C05.H", F.load("dbg"))
