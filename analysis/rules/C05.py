"""C05 - canonization certificates (see C04.py for the engine)."""
from .C04 import analyse

LEVEL = "other"


def run(chk):
    analyse(chk, "C05")
