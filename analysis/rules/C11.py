"""C11 - named constructors build exactly the functions their names denote (bitflow, E4)."""
from .. import facts as F
from .. import specs as S
from .. import api
from ..harness import *

LEVEL = "proof"
M64 = (1 << 64) - 1


def call_ctor(env, kind, name, n, extra):
    K = env.kinds[kind]
    it = env.interp()
    st = State()
    args = ([usize(n)] if kind == "dyn" else []) + extra
    outs = it.call_body(K.method(name), args, st, K.env(n))
    return it, outs


def check_ctor(chk, env, kind, name, n, extra, exp, key, rule="C11.K"):
    K = env.kinds[kind]
    try:
        it, outs = call_ctor(env, kind, name, n, extra)
        o, v, d = single_return(outs)
        if o is not None:
            v, d = check_table_value(env, kind, it, o.state, o.value, n, exp, o.pc)
    except Undecided as e:
        v, d = UNDECIDED, e.cause
    chk.add(rule, key, v, d, where=where_of(K.method(name)),
            sample=dict(obligation=key, verdict=v) if len(chk.samples) < 10 and n == 3 else None)


def run(chk):
    cfgs = ["dbg"] if chk.tier == "quick" else ["dbg", "rel"]
    nmax = 12   # every StaticLut alias; the dynamic Lut also at 13, 14 (both tiers; thorough adds the release configuration)
    chk.trust("rustc MIR construction and constant evaluation; std summaries (analysis/stdmodel.py); specs (analysis/specs.py)")
    chk.assume("n above %d follows the same code path (loops unrolled per n)" % nmax)
    for cfg in cfgs:
        facts = F.load(cfg)
        env = Env(facts)
        tag = "" if cfg == "dbg" else " [rel]"
        for kind in ("dyn", "static"):
            K = env.kinds[kind]
            top = nmax + (2 if kind == "dyn" else 0)
            for n in range(0, top + 1):
                A = K.adt
                check_ctor(chk, env, kind, "zero", n, [], S.const(n, 0), "%s::zero n=%d%s" % (A, n, tag))
                check_ctor(chk, env, kind, "one", n, [], S.const(n, 1), "%s::one n=%d%s" % (A, n, tag))
                check_ctor(chk, env, kind, "parity", n, [], S.parity(n), "%s::parity n=%d%s" % (A, n, tag))
                check_ctor(chk, env, kind, "majority", n, [], S.majority(n), "%s::majority n=%d%s" % (A, n, tag))
                check_ctor(chk, env, kind, "symmetric", n, [watoms(64, "cv")], S.symmetric_atoms(n), "%s::symmetric n=%d%s" % (A, n, tag))
                for i in range(n):
                    check_ctor(chk, env, kind, "nth_var", n, [usize(i)], S.nth_var(n, i), "%s::nth_var n=%d i=%d%s" % (A, n, i, tag))
                for k in list(range(n + 3)) + [63, 64, 65, M64]:
                    ks = "usize::MAX" if k == M64 else str(k)
                    check_ctor(chk, env, kind, "equals", n, [usize(k)], S.equals(n, k), "%s::equals n=%d k=%s%s" % (A, n, ks, tag))
                    check_ctor(chk, env, kind, "threshold", n, [usize(k)], S.threshold(n, k), "%s::threshold n=%d k=%s%s" % (A, n, ks, tag))
        # Default
        for b, sty, tr in facts.trait_impl_methods("std::default::Default"):
            for kind in ("dyn", "static"):
                K = env.kinds[kind]
                if sty.get("path") != K.adt:
                    continue
                for n in ([0] if kind == "dyn" else range(0, nmax + 1)):
                    key = "<%s as Default>::default n=%d%s" % (K.adt, n, tag)
                    try:
                        it = env.interp()
                        outs = it.call_body(b, [], State(), K.env(n))
                        o, v, d = single_return(outs)
                        if o is not None:
                            v, d = check_table_value(env, kind, it, o.state, o.value, n, S.const(n, 0), o.pc)
                    except Undecided as e:
                        v, d = UNDECIDED, e.cause
                    chk.add("C11.K", key, v, d, where=where_of(b))
    symmetric_windows(chk, Env(F.load("dbg")))
    chk.notes["n_range"] = [0, nmax]
    chk.notes["k_values"] = "0..=n+2, 63, 64, 65, usize::MAX"
    chk.floor("C11 constructors", sum(1 for k in ("dyn", "static") for m in ("zero", "one", "nth_var", "parity", "majority", "threshold", "equals", "symmetric") if m in env.kinds[k].methods), 16)
    from ..history import history_rule
    history_rule(chk, "C11.H", F.load("dbg"))


def symmetric_windows(chk, env):
    """C11.W: symmetric(c) with the count mask symbolic on its relevant bits 0..n (window mode: data-dependent
    shortcuts on the mask - saturated words, early exits - become paths with exact conditions): for every mask the
    table has bit popcount(m) of c on assignment m."""
    from ..harness import Space, eval_value
    for kind in ("dyn", "static"):
        K = env.kinds[kind]
        b = K.methods.get("symmetric")
        if b is None:
            continue
        for n in (5, 6, 7, 8, 9):
            key = "%s::symmetric n=%d, count-mask bits 0..%d symbolic" % (K.adt, n, n)
            try:
                names = ["cv[%d]" % k_ for k_ in range(n + 1)]
                space = Space(names)
                it = env.interp(max_paths=8192)
                it.max_steps = 5000000      # needs 0.2M today
                it.prune = True
                it.cmp_split = True
                it.split_all = True
                it.space = space
                st = State()
                cv = W(64, bits=[B.atom("cv[%d]" % k_) if k_ <= n else ZERO for k_ in range(64)])
                with space:
                    outs = it.call_body(b, ([usize(n)] if kind == "dyn" else []) + [cv], st, K.env(n))
                v, d = PROVED, ""
                seen = 0
                for o in outs:
                    m_ = space.pc_mask(o.pc)
                    if m_ is None:
                        raise Undecided("path condition with top")
                    if not m_:
                        continue
                    if o.kind != "return":
                        v, d = REFUTED, "panics (%s)" % o.info.get("msg")
                        break
                    if seen & m_:
                        raise Undecided("overlapping paths")
                    seen |= m_
                    words = K.words(it, o.state, o.value)
                    bits = bits_of_table(words, n)
                    for p_, bt in enumerate(bits):
                        got = space.bit_mask(bt) if bt is not None else None
                        if got is None:
                            raise Undecided("table bit %d not exact" % p_)
                        want = space.var[B.ATOMS.get("cv[%d]" % bin(p_).count("1"))] if p_ < (1 << n) else 0
                        diff = (got ^ want) & m_
                        if diff:
                            r_ = (diff & -diff).bit_length() - 1
                            v, d = REFUTED, "symmetric(%d, %#x) has value %d on assignment %#x (%d inputs true), the mask says %d" % (
                                n, r_, (got >> r_) & 1, p_, bin(p_).count("1"), (want >> r_) & 1)
                            break
                    if v != PROVED:
                        break
                if v == PROVED and seen != space.full:
                    v, d = UNDECIDED, "paths do not cover every mask"
            except Undecided as e:
                v, d = UNDECIDED, e.cause
            chk.add("C11.W", key, v, d, where=where_of(b))
