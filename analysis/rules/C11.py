"""C11 - named constructors build exactly the functions their names denote (bitflow, E4)."""
from .. import facts as F
from .. import specs as S
from .. import api
from ..harness import *

LEVEL = "proof"
M64 = (1 << 64) - 1


def call_ctor(env, kind, name, n, extra):
    K = env.kinds[kind]
    it = env.interp()
    st = State()
    args = ([usize(n)] if kind == "dyn" else []) + extra
    outs = it.call_body(K.method(name), args, st, K.env(n))
    return it, outs


def check_ctor(chk, env, kind, name, n, extra, exp, key, rule="C11.K"):
    K = env.kinds[kind]
    try:
        it, outs = call_ctor(env, kind, name, n, extra)
        o, v, d = single_return(outs)
        if o is not None:
            v, d = check_table_value(env, kind, it, o.state, o.value, n, exp, o.pc)
    except Undecided as e:
        v, d = UNDECIDED, e.cause
    chk.add(rule, key, v, d, where=where_of(K.method(name)),
            sample=dict(obligation=key, verdict=v) if len(chk.samples) < 10 and n == 3 else None)


def run(chk):
    cfgs = ["dbg"] if chk.tier == "quick" else ["dbg", "rel"]
    nmax = 12   # every StaticLut alias; the dynamic Lut also at 13, 14 (both tiers; thorough adds the release configuration)
    chk.trust("rustc MIR construction and constant evaluation; std summaries (analysis/stdmodel.py); specs (analysis/specs.py)")
    chk.assume("n above %d follows the same code path (loops unrolled per n)" % nmax)
    for cfg in cfgs:
        facts = F.load(cfg)
        env = Env(facts)
        tag = "" if cfg == "dbg" else " [rel]"
        for kind in ("dyn", "static"):
            K = env.kinds[kind]
            top = nmax + (2 if kind == "dyn" else 0)
            for n in range(0, top + 1):
                A = K.adt
                check_ctor(chk, env, kind, "zero", n, [], S.const(n, 0), "%s::zero n=%d%s" % (A, n, tag))
                check_ctor(chk, env, kind, "one", n, [], S.const(n, 1), "%s::one n=%d%s" % (A, n, tag))
                check_ctor(chk, env, kind, "parity", n, [], S.parity(n), "%s::parity n=%d%s" % (A, n, tag))
                check_ctor(chk, env, kind, "majority", n, [], S.majority(n), "%s::majority n=%d%s" % (A, n, tag))
                check_ctor(chk, env, kind, "symmetric", n, [watoms(64, "cv")], S.symmetric_atoms(n), "%s::symmetric n=%d%s" % (A, n, tag))
                for i in range(n):
                    check_ctor(chk, env, kind, "nth_var", n, [usize(i)], S.nth_var(n, i), "%s::nth_var n=%d i=%d%s" % (A, n, i, tag))
                for k in list(range(n + 3)) + [63, 64, 65, M64]:
                    ks = "usize::MAX" if k == M64 else str(k)
                    check_ctor(chk, env, kind, "equals", n, [usize(k)], S.equals(n, k), "%s::equals n=%d k=%s%s" % (A, n, ks, tag))
                    check_ctor(chk, env, kind, "threshold", n, [usize(k)], S.threshold(n, k), "%s::threshold n=%d k=%s%s" % (A, n, ks, tag))
        # Default
        for b, sty, tr in facts.trait_impl_methods("std::default::Default"):
            for kind in ("dyn", "static"):
                K = env.kinds[kind]
                if sty.get("path") != K.adt:
                    continue
                for n in ([0] if kind == "dyn" else range(0, nmax + 1)):
                    key = "<%s as Default>::default n=%d%s" % (K.adt, n, tag)
                    try:
                        it = env.interp()
                        outs = it.call_body(b, [], State(), K.env(n))
                        o, v, d = single_return(outs)
                        if o is not None:
                            v, d = check_table_value(env, kind, it, o.state, o.value, n, S.const(n, 0), o.pc)
                    except Undecided as e:
                        v, d = UNDECIDED, e.cause
                    chk.add("C11.K", key, v, d, where=where_of(b))
    chk.notes["n_range"] = [0, nmax]
    chk.notes["k_values"] = "0..=n+2, 63, 64, 65, usize::MAX"
    chk.floor("C11 constructors", sum(1 for k in ("dyn", "static") for m in ("zero", "one", "nth_var", "parity", "majority", "threshold", "equals", "symmetric") if m in env.kinds[k].methods), 16)
    from ..history import history_rule
    history_rule(chk, "C11.H", F.load("dbg"))
