"""C06 - top_decomposition / unateness classification is sound and complete.

The public method is run on a table of symbolic bits.  Every path yields (path condition,
class).  Conditions are clause sets "for every position q: g(c0[q], c1[q]) = 0".
  * n <= 3: all 2^(2^n) tables are enumerated *on the abstract summary* (exact, no top).
  * n >= 4: every condition must be a uniform pair predicate (the same allowed set A of
    (c0,c1) value pairs at every one of the 2^(n-1) positions, nothing else constrained); the
    decision is then compared with the statement on all 15 non-empty sets S of value pairs.
A refutation is a concrete table on which the summary returns the wrong class.
"""
import itertools

from .. import facts as F
from ..harness import *

LEVEL = "proof"
PAIRS = [(0, 0), (0, 1), (1, 0), (1, 1)]


def spec_class(S):
    S = set(S)
    if all(a == b for a, b in S):
        return "Independent"
    if S == {(0, 1)}:
        return "Identity"
    if S == {(1, 0)}:
        return "Negation"
    if all(a == 0 for a, b in S):
        return "And"
    if all(b == 1 for a, b in S):
        return "Or"
    if all(a == 1 for a, b in S):
        return "Le"
    if all(b == 0 for a, b in S):
        return "Lt"
    if all(a != b for a, b in S):
        return "Xor"
    return "None"


def spec_unate(S, pos):
    return all((a <= b) if pos else (b <= a) for a, b in S)


def cond_clauses(c):
    """-> (clauses that must all be 0, negated?) or None when not exact"""
    if isinstance(c, W):
        if c.val is not None:
            return ([], False) if c.val else ([ONE], False)
        b = c.bits[0]
        if b is None:
            return None
        if b[1] == "nos":      # NOT(OR terms) is 1 iff every term is 0
            return (list(b[2]), False)
        if b[1] == "os":
            return (list(b[2]), True)
        return ([B.bnot(b)], False)
    if isinstance(c, CS):
        if c.has_top():
            return None
        return (list(c.clauses), c.neg)
    return None


def eval_cond(cc, asg):
    cl, neg = cc
    allzero = all(not B.eval_bit(f, asg) for f in cl)
    return allzero != neg


def pair_atoms(n, v):
    """positions q (with bit v clear) -> (atom id of in[q], atom id of in[q | 2^v])"""
    out = []
    for q in range(1 << n):
        if not (q >> v) & 1:
            out.append((B.ATOMS.get("a[%d]" % q), B.ATOMS.get("a[%d]" % (q | (1 << v)))))
    return out


def uniform_allowed(cc, pairs):
    """allowed set A of a uniform pair predicate, or None"""
    cl, neg = cc
    where = {}
    for k, (x, y) in enumerate(pairs):
        where[x] = k
        where[y] = k
    per = {}
    for f in cl:
        ks = {where.get(a) for a in f[0]}
        if None in ks or len(ks) != 1:
            return None
        per.setdefault(ks.pop(), []).append(f)
    if not cl:
        return frozenset(PAIRS)
    if len(per) != len(pairs):
        return None
    A = None
    for k, fs in per.items():
        x, y = pairs[k]
        a_k = frozenset((a, b) for a, b in PAIRS if all(not B.eval_bit(f, {x: a, y: b}) for f in fs))
        if A is None:
            A = a_k
        elif A != a_k:
            return None
    return A


def table_asg(n, v, values):
    """assignment of atoms for the table whose pair at position index k has value values[k]"""
    asg = {}
    for (x, y), (a, b) in zip(pair_atoms(n, v), values):
        asg[x] = a
        asg[y] = b
    return asg


def decide(outs_cc, asg):
    """classes of the enabled outcomes on a concrete assignment"""
    return [cls for ccs, cls in outs_cc if all(eval_cond(cc, asg) for cc in ccs)]


def split_or(f, where):
    """a clause function over several cofactor pairs that is a disjunction of per-pair functions (mismatches of
    several words or-ed together before the test) -> the per-pair functions; otherwise [f]"""
    if f is None or f[1] in ("xs", "os", "nos", "sp"):
        return [f]
    groups = {}
    for a in f[0]:
        groups.setdefault(where.get(a), []).append(a)
    if None in groups or len(groups) < 2:
        return [f]
    parts = []
    for k, atoms in groups.items():
        others = [a for a in f[0] if a not in atoms]
        g = None
        for r in range(1 << len(others)):
            h = B.restrict(f, {a: (r >> i) & 1 for i, a in enumerate(others)})
            g = h if g is None else B.band(g, h)
        parts.append(g)
    acc = B.ZERO
    for g in parts:
        acc = B.bor(acc, g)
    return parts if acc == f else [f]


def check_entry(n, v, outs_cc, spec):
    """outs_cc: list of (list of cond clauses, class). spec: S -> class"""
    pairs = pair_atoms(n, v)
    npairs = len(pairs)
    where0 = {}
    for k, (x, y) in enumerate(pairs):
        where0[x] = k
        where0[y] = k
    outs_cc = [([([g for f in cl for g in split_or(f, where0)], neg) for cl, neg in ccs], cls) for ccs, cls in outs_cc]
    if n <= 3:
        for values in itertools.product(PAIRS, repeat=npairs):
            asg = table_asg(n, v, values)
            got = decide(outs_cc, asg)
            want = spec(set(values))
            if len(set(got)) != 1 or got[0] != want:
                tbl = {B.ATOMS.name(k): x for k, x in asg.items()}
                return REFUTED, "table %s (cofactor value pairs %s): returns %s, specification says %s" % (tbl, sorted(set(values)), got or "nothing", want)
        return PROVED, ""
    # uniform predicate abstraction
    abstr = []
    nonuniform = False
    for ccs, cls in outs_cc:
        row = []
        for cc in ccs:
            A = uniform_allowed(cc, pairs)
            if A is None:
                nonuniform = True
                break
            row.append((A, cc[1]))
        abstr.append((row, cls))
        if nonuniform:
            break
    if not nonuniform:
        for r in range(1, 5):
            for S in itertools.combinations(PAIRS, r):
                if len(S) > npairs:
                    continue
                got = [cls for row, cls in abstr if all((set(S) <= A) != neg for A, neg in row)]
                want = spec(set(S))
                if len(set(got)) != 1 or got[0] != want:
                    values = [S[k % len(S)] for k in range(npairs)]
                    return REFUTED, "a table whose cofactor value pairs are exactly %s: returns %s, specification says %s" % (sorted(S), got or "nothing", want)
        return PROVED, ""
    # non-uniform summary: look for a definite counterexample in a family of concrete tables
    fam = []
    suspects = set()
    where = {}
    for k, (x, y) in enumerate(pairs):
        where[x] = k
        where[y] = k
    for ccs, cls in outs_cc:
        for cl, neg in ccs:
            per = {}
            for f in cl:
                ks = {where.get(a) for a in f[0]}
                if None not in ks:
                    for k in ks:
                        per.setdefault(k, []).append(f)
            if not cl:
                continue
            sig = {}
            for k in range(npairs):
                x, y = pairs[k]
                fs = [f for f in per.get(k, []) if set(f[0]) <= {x, y}]
                a_k = frozenset((a, b) for a, b in PAIRS if all(not B.eval_bit(f, {x: a, y: b}) for f in fs)) if len(fs) == len(per.get(k, [])) else None
                sig.setdefault(a_k, []).append(k)
            if len(sig) > 1:
                for a_k, ks in sorted(sig.items(), key=lambda kv: len(kv[1]))[:-1]:
                    suspects.update(ks[:6])
    pos = sorted(({0, 1, 2, npairs // 2, npairs - 2, npairs - 1} | suspects) & set(range(npairs)))[:40]
    for x in PAIRS:
        fam.append([x] * npairs)
        for y in PAIRS:
            if y == x:
                continue
            for q in pos:
                vals = [x] * npairs
                vals[q] = y
                fam.append(vals)
    for values in fam:
        asg = table_asg(n, v, values)
        got = decide(outs_cc, asg)
        want = spec(set(values))
        if len(set(got)) != 1 or got[0] != want:
            odd = [k for k, x in enumerate(values) if x != values[0]]
            return REFUTED, "table with cofactor pair %s everywhere%s: returns %s, specification says %s" % (values[0], (" except %s at position %d" % (values[odd[0]], odd[0])) if odd else "", got or "nothing", want)
    return UNDECIDED, "conditions are not uniform pair predicates"


def run(chk):
    facts = F.load("dbg")
    env = Env(facts)
    nmax = 10 if chk.tier == "quick" else 12
    # the public enum, wherever it is defined (a tree that compiles and passes the tests exports it)
    dt_path = ([p_ for p_ in facts.adts if p_ == "decomposition::DecompositionType"] + [p_ for p_ in facts.adts if p_.endswith("::DecompositionType") or p_ == "DecompositionType"] + [None])[0]
    dt = facts.adts.get(dt_path)
    if dt is None:
        chk.undecided("C06.anchor", "DecompositionType", "enum not found under that name: classification results cannot be read")
        return
    vnames = [v["name"] for v in dt["variants"]]
    chk.trust("rustc MIR construction; std summaries; the reading of the statement in spec_class()")
    chk.assume("tables are well formed (C02); cross-word path decided for the listed n (unrolled)")
    for kind in ("dyn", "static"):
        K = env.kinds[kind]
        plan = [(n, v) for n in range(1, nmax + 1) for v in range(n)]
        if chk.tier == "quick":
            # larger strides of the cross-word path (one block of word pairs is no longer the whole table)
            plan += [(9, 6), (9, 8), (10, 6), (10, 8), (10, 9)]
        for n, v in plan:
            if True:
                # ---------------- top_decomposition
                key = "%s::top_decomposition n=%d v=%d" % (K.adt, n, v)
                b = K.method("top_decomposition")
                try:
                    it = env.interp(max_paths=4096)
                    st = State()
                    p = K.place(st, K.mk(st, n, sym_words(n, "a")))
                    outs = it.call_body(b, [p, usize(v)], st, K.env(n))
                    verdict, d = None, ""
                    outs_cc = []
                    for o in outs:
                        ccs = [cond_clauses(c) for c in o.pc]
                        if any(cc is None for cc in ccs):
                            verdict, d = UNDECIDED, "path condition with top"
                            break
                        if o.kind == "panic":
                            outs_cc.append((ccs, "panic(%s)" % o.info.get("msg")))
                        else:
                            if not isinstance(o.value, Agg) or o.value.key != dt_path:
                                verdict, d = UNDECIDED, "result is not a DecompositionType: %r" % (o.value,)
                                break
                            outs_cc.append((ccs, vnames[o.value.variant]))
                    if verdict is None:
                        verdict, d = check_entry(n, v, outs_cc, spec_class)
                except Undecided as e:
                    verdict, d = UNDECIDED, e.cause
                chk.add("C06.top", key, verdict, d, where=where_of(b),
                        sample=dict(obligation=key, paths=len(outs_cc) if verdict != UNDECIDED else None, mode="enumerated" if n <= 3 else "uniform-predicate", verdict=verdict) if len(chk.samples) < 8 and v == n - 1 else None)
                # ---------------- unateness
                for mname, pos in (("is_pos_unate", True), ("is_neg_unate", False)):
                    key = "%s::%s n=%d v=%d" % (K.adt, mname, n, v)
                    b = K.method(mname)
                    try:
                        it = env.interp()
                        st = State()
                        p = K.place(st, K.mk(st, n, sym_words(n, "a")))
                        outs = it.call_body(b, [p, usize(v)], st, K.env(n))
                        o, verdict, d = single_return(outs)
                        if o is not None:
                            cc = cond_clauses(o.value)
                            pcs = [cond_clauses(c) for c in o.pc]
                            if cc is None or any(x is None for x in pcs):
                                verdict, d = UNDECIDED, "result with top"
                            else:
                                outs_cc = [(pcs + [cc], "true"), (pcs + [(cc[0], not cc[1])], "false")]
                                verdict, d = check_entry(n, v, outs_cc, lambda S: "true" if spec_unate(S, pos) else "false")
                    except Undecided as e:
                        verdict, d = UNDECIDED, e.cause
                    chk.add("C06.unate", key, verdict, d, where=where_of(b))
    chk.floor("C06 entry points", sum(1 for k in ("dyn", "static") for m in ("top_decomposition", "is_pos_unate", "is_neg_unate") if m in env.kinds[k].methods), 6)
    chk.notes["n_range"] = [1, nmax]
    from ..history import history_rule
    history_rule(chk, "C06.H", F.load("dbg"))
