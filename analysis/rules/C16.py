"""C16 - Display of cubes and two-level forms is a formula denoting the same function.

The fmt bodies are run on symbolic objects with the token-level formatter model.
  C16.C  Cube: symbolic literal sets over a window of variables ({0,1,2} and the two-digit window
         {10,11}); every abstract path fixes the cube and the printed text; the text, read with the
         grammar (x<i>, !x<i>, juxtaposition = AND, 1, 0), denotes exactly the cube's conjunction,
         variables in increasing order, distinct cubes print distinct text; the canonical zero prints 0.
  C16.E  Ecube: same with ' ^ ' and a leading 1 for XNOR terms.
  C16.V  value() of Cube / Ecube / Sop / Soes / Esop is that denotation (conjunction of literals, parity, OR / XOR
         of the term values; the zero cube is false) - the rules of C12.L / C13.E / C13-15.V re-run for this property.
  C16.J  Sop / Soes print their terms joined by ' | ', Esop by ' ^ ' (the operator their value()
         reduces with: C13/C14/C15), every term once and in order, the empty form prints 0.
Not decided: operator precedence of the combined text beyond the joiner (terms never contain the joiner
of a looser level: cube text has no ' | ', ' ^ ').
"""
import itertools
import re

from .. import facts as F
from ..harness import *
from ..absint import new_cell
from ..cubemodel import CubeModel, CUBE, ECUBE, arg_for
from ..sopmodel import Container, SOP, ESOP, SOES, install_stubs
from .C13 import ecube_fields, ecube_value_rule, container_value_rule
from .C12 import cube_value_rule

LEVEL = "other"


def text_of(toks):
    out = ""
    for t in toks:
        if t[0] == "lit":
            out += t[1]
        elif t[0] == "fmt":
            v = t[4]
            from ..sopmodel import elem_name
            if t[1] == "display" and t[3] is None and isinstance(v, Agg) and elem_name(v) is not None:
                out += "<%s>" % elem_name(v)       # `{}` of a named element = its to_string()
                continue
            if t[1] != "display" or t[3] is not None or not (isinstance(v, W) and v.val is not None):
                raise Undecided("non-literal token in text %r" % (t,))
            out += str(v.val)
        elif t[0] == "str_of":
            out += "<%s>" % t[1]
        else:
            raise Undecided("token %r" % (t,))
    return out


def run_fmt(facts, body, value, pc=(), stubs=None, opaque=False):
    it = Interp(facts, max_paths=4096)
    it.prune = True
    if stubs:
        stubs(it)
    it.opaque_elements = opaque
    st = State()
    c = new_cell()
    st.mem[c] = value
    fc = new_cell()
    st.mem[fc] = Opaque("formatter", ((),))
    outs = it.call_body(body, [Ptr(c, ()), Ptr(fc, ())], st, {}, pc=tuple(pc))
    res = []
    for o in outs:
        s_, w_ = pc_status(o.pc)
        if s_ == "unsat":
            continue
        if o.kind != "return":
            res.append(("panic", s_, w_, o.info.get("msg")))
        else:
            res.append(("text", s_, w_, text_of(it.read_ptr(o.state, Ptr(fc, ())).data[0])))
    return res


CUBE_RE = re.compile(r"^(?:1|0|(?:!?x\d+)+)$")
LIT_RE = re.compile(r"(!?)x(\d+)")


def run(chk):
    facts = F.load("dbg")
    chk.trust("core::fmt renders {} of an integer as its decimal digits; format-string literals are read from the source of the macro call")
    cm = CubeModel(facts)
    disp = {}
    for b, sty, tr in facts.trait_impl_methods("std::fmt::Display"):
        disp[sty.get("path")] = b
    # ------------------------------------------------------------------ Cube
    b = disp.get(CUBE)
    if b is None:
        chk.refuted("C16.C", "anchor-missing: Display for Cube", "")
    else:
        for window in ((0, 1, 2), (10, 11), (0, 31)):
            key = "Cube display over variables %s" % (list(window),)
            try:
                f = [None, None]
                pb = [B.atom("c.P[%d]" % i) if i in window else ZERO for i in range(32)]
                nb = [B.atom("c.N[%d]" % i) if i in window else ZERO for i in range(32)]
                f[cm.pi], f[cm.ni] = W(32, bits=pb), W(32, bits=nb)
                cube = Agg("adt", CUBE, 0, f)
                pc0 = [W(1, bits=[B.bnot(B.band(B.atom("c.P[%d]" % i), B.atom("c.N[%d]" % i)))]) for i in window]
                res = run_fmt(facts, b, cube, pc0)
                v, d = PROVED, ""
                seen = {}
                for kind_, s_, w_, txt in res:
                    if kind_ == "panic":
                        v, d = (REFUTED, "printing panics: %s %s" % (txt, w_)) if s_ == "sat" else (UNDECIDED, "possible panic")
                        break
                    if s_ != "sat":
                        v, d = UNDECIDED, "path not decided"
                        break
                    P = {i for i in window if w_.get("c.P[%d]" % i)}
                    N = {i for i in window if w_.get("c.N[%d]" % i)}
                    if any(("c.P[%d]" % i) not in w_ or ("c.N[%d]" % i) not in w_ for i in window):
                        v, d = UNDECIDED, "path does not fix the cube"
                        break
                    if not CUBE_RE.match(txt):
                        v, d = REFUTED, "cube +%s -%s prints %r, which is not a product of literals" % (sorted(P), sorted(N), txt)
                        break
                    lits = [(neg == "!", int(i)) for neg, i in LIT_RE.findall(txt)] if txt not in ("0", "1") else []
                    gotP = {i for ng, i in lits if not ng}
                    gotN = {i for ng, i in lits if ng}
                    if txt == "0" or gotP != P or gotN != N or (txt == "1") != (not P and not N):
                        v, d = REFUTED, "cube with positive %s and negative %s prints %r" % (sorted(P), sorted(N), txt)
                        break
                    idx = [i for ng, i in lits]
                    if idx != sorted(idx) or len(set(idx)) != len(idx):
                        v, d = REFUTED, "variables are not printed in increasing order: %r" % txt
                        break
                    if txt in seen and seen[txt] != (P, N):
                        v, d = REFUTED, "two different cubes print %r" % txt
                        break
                    seen[txt] = (P, N)
                if v == PROVED and len(seen) != 3 ** len(window):
                    v, d = UNDECIDED, "%d printed cubes of %d" % (len(seen), 3 ** len(window))
            except Undecided as e:
                v, d = UNDECIDED, e.cause
            chk.add("C16.C", key, v, d, where=where_of(b), sample=dict(obligation=key, cubes=len(seen) if v == PROVED else None, example=sorted(seen)[:5] if v == PROVED else None))
        try:
            res = run_fmt(facts, b, cm.zero)
            ok = [r for r in res if r[0] == "text"]
            v, d = (PROVED, "") if len(res) == 1 and ok and ok[0][3] == "0" else (REFUTED, "the canonical zero cube prints %r" % [r[3] for r in res])
        except Undecided as e:
            v, d = UNDECIDED, e.cause
        chk.add("C16.C", "Cube::zero prints 0", v, d, where=where_of(b))
    # ------------------------------------------------------------------ Ecube
    b = disp.get(ECUBE)
    if b is None:
        chk.refuted("C16.E", "anchor-missing: Display for Ecube", "")
    else:
        vi, xi = ecube_fields(facts)
        for window in ((0, 1, 2), (9, 12), (31,)):
            key = "Ecube display over variables %s" % (list(window),)
            try:
                f = [None, None]
                f[vi] = W(32, bits=[B.atom("e.V[%d]" % i) if i in window else ZERO for i in range(32)])
                f[xi] = W(1, bits=[B.atom("e.X")])
                res = run_fmt(facts, b, Agg("adt", ECUBE, 0, f))
                v, d = PROVED, ""
                seen = {}
                for kind_, s_, w_, txt in res:
                    if kind_ == "panic" or s_ != "sat":
                        v, d = (REFUTED, "printing panics: %s" % txt) if (kind_ == "panic" and s_ == "sat") else (UNDECIDED, "path not decided")
                        break
                    if any(("e.V[%d]" % i) not in w_ for i in window) or "e.X" not in w_:
                        v, d = UNDECIDED, "path does not fix the term"
                        break
                    V = {i for i in window if w_["e.V[%d]" % i]}
                    X = w_["e.X"]
                    parts = txt.split(" ^ ")
                    ones = [p for p in parts if p == "1"]
                    vars_ = [p for p in parts if p not in ("1", "0")]
                    bad = [p for p in vars_ if not re.match(r"^x\d+$", p)]
                    idx = [int(p[1:]) for p in vars_ if not bad]
                    denot_vars = set()
                    for i in idx:
                        denot_vars ^= {i}
                    denot_c = (len(ones) & 1)
                    if bad or (txt == "0") != (not V and not X) or (txt != "0" and (denot_vars != V or denot_c != X or "0" in parts)):
                        v, d = REFUTED, "term over %s with xnor=%d prints %r" % (sorted(V), X, txt)
                        break
                    if idx != sorted(idx):
                        v, d = REFUTED, "variables are not printed in increasing order: %r" % txt
                        break
                    if txt in seen and seen[txt] != (V, X):
                        v, d = REFUTED, "two different terms print %r" % txt
                        break
                    seen[txt] = (V, X)
                if v == PROVED and len(seen) != 2 ** (len(window) + 1):
                    v, d = UNDECIDED, "%d printed terms of %d" % (len(seen), 2 ** (len(window) + 1))
            except Undecided as e:
                v, d = UNDECIDED, e.cause
            chk.add("C16.E", key, v, d, where=where_of(b))
        # concrete terms over a sparse variable set (gaps between the variables, several variables after a gap): a
        # printer that jumps between set bits computes the printed index from data, which the symbolic windows above
        # cannot follow; constant terms fold completely
        import itertools as _it
        pool = (0, 2, 3, 4, 9, 31)
        v, d, nrun = PROVED, "", 0
        try:
            for r_ in range(len(pool) + 1):
                for V in _it.combinations(pool, r_):
                    for X in (0, 1):
                        f = [None, None]
                        f[vi] = W(32, val=sum(1 << i for i in V))
                        f[xi] = W(1, val=X)
                        res = run_fmt(facts, b, Agg("adt", ECUBE, 0, f))
                        nrun += 1
                        if len(res) != 1 or res[0][0] != "text":
                            if any(r[0] == "panic" and r[1] == "sat" for r in res):
                                v, d = REFUTED, "printing the term over %s with xnor=%d panics" % (list(V), X)
                            else:
                                v, d = UNDECIDED, "constant term does not fold to one text"
                            break
                        txt = res[0][3]
                        parts = txt.split(" ^ ")
                        vars_ = [p_ for p_ in parts if p_ not in ("1", "0")]
                        if any(not re.match(r"^x\d+$", p_) for p_ in vars_):
                            v, d = UNDECIDED, "text %r not read" % txt
                            break
                        idx = [int(p_[1:]) for p_ in vars_]
                        dv = set()
                        for i in idx:
                            dv ^= {i}
                        dc = sum(1 for p_ in parts if p_ == "1") & 1
                        if (txt == "0") != (not V and not X) or (txt != "0" and (dv != set(V) or dc != X or "0" in parts)):
                            v, d = REFUTED, "term over %s with xnor=%d prints %r" % (list(V), X, txt)
                            break
                        if idx != sorted(idx):
                            v, d = REFUTED, "variables are not printed in increasing order: %r" % txt
                            break
                    if v != PROVED:
                        break
                if v != PROVED:
                    break
        except Undecided as e:
            v, d = UNDECIDED, e.cause
        chk.add("C16.E", "Ecube display of %d constant terms over subsets of %s" % (2 ** (len(pool) + 1), list(pool)), v, d, where=where_of(b))
    # ------------------------------------------------------------------ joiners
    for adt, sep in ((SOP, " | "), (SOES, " | "), (ESOP, " ^ ")):
        b = disp.get(adt)
        short = adt.split("::")[-1]
        if b is None:
            chk.refuted("C16.J", "anchor-missing: Display for %s" % short, "")
            continue
        C = Container(facts, adt)
        for names in [["c%d" % j for j in range(L)] for L in (0, 1, 2, 3)] + [["c0", "c0"], ["c0", "c1", "c0"], ["c0", "c0", "c1"]]:
            L = len(names)
            key = "%s display with %d terms" % (short, L) if len(set(names)) == L else "%s display with repeated terms %s" % (short, names)
            try:
                st0 = State()
                it = Interp(facts, max_paths=256)
                install_stubs(it, facts, C.elem)
                it.opaque_elements = True
                val = C.mk(st0, 4, names)
                c = new_cell()
                st0.mem[c] = val
                fc = new_cell()
                st0.mem[fc] = Opaque("formatter", ((),))
                outs = it.call_body(b, [Ptr(c, ()), Ptr(fc, ())], st0, {})
                red = B.bxor if sep == " ^ " else B.bor
                from ..sopmodel import val_atom
                v, d = PROVED, ""
                nret = 0
                for o in outs:
                    s_, w_ = pc_status(o.pc)
                    if s_ == "unsat":
                        continue
                    if o.kind != "return" or s_ != "sat":
                        v, d = UNDECIDED, "path not decided"
                        break
                    nret += 1
                    zeros = {nm for nm in names if w_.get("is_zero(%s)" % nm)}
                    ones = {nm for nm in names if w_.get("is_one(%s)" % nm)}

                    def val(nm):
                        return ZERO if nm in zeros else (ONE if nm in ones else val_atom(nm, "m"))
                    obj = ZERO
                    for nm in names:
                        obj = red(obj, val(nm))
                    txt = text_of(it.read_ptr(o.state, Ptr(fc, ())).data[0])
                    if txt == "0":
                        den = ZERO
                    elif txt == "1":
                        den = ONE
                    else:
                        parts = txt.split(sep)
                        conj = short in ("Sop", "Esop")     # texts of cubes written next to each other denote their product
                        if not txt or any(not re.match(r"^(<c\d+>)+$" if conj else r"^<c\d+>$", p_) for p_ in parts):
                            v, d = REFUTED, "%s of terms %s%s prints %r, which is not a formula over its terms joined by %r" % (short, names, (" (zero terms: %s)" % sorted(zeros)) if zeros else "", txt, sep)
                            break
                        den = ZERO
                        for p_ in parts:
                            prod = ONE
                            for nm_ in re.findall(r"<(c\d+)>", p_):
                                prod = B.band(prod, val(nm_))
                            den = red(den, prod)
                    if den != obj:
                        v, d = REFUTED, "%s of terms %s prints %r, which denotes %s while value() is %s" % (short, names, txt, B.describe(den), B.describe(obj))
                        break
                if v == PROVED and nret == 0:
                    v, d = UNDECIDED, "no returning path"
            except Undecided as e:
                v, d = UNDECIDED, e.cause
            chk.add("C16.J", key, v, d, where=where_of(b), sample=dict(obligation=key, verdict=v) if L == 2 else None)
    # ------------------------------------------------------------------ C16.K lists of *constant* terms, concretely
    # (the opaque-term rule above cannot place the constants 0 / 1 inside longer lists: is_zero / is_one shortcuts of the
    # printers are decided here on real terms) - the printed text, read with the grammar, has the value of the list
    import itertools as _it
    from ..window import ElemKind
    from ..absint import wconst
    for adt, sep, red in ((SOP, " | ", "or"), (SOES, " | ", "or"), (ESOP, " ^ ", "xor")):
        b = disp.get(adt)
        short = adt.split("::")[-1]
        if b is None:
            continue
        try:
            C = Container(facts, adt)
            E = ElemKind(facts, C.elem)
        except (KeyError, Undecided) as e:
            chk.undecided("C16.K", "%s of constant terms" % short, str(getattr(e, "cause", e)))
            continue
        consts = (1,) if E.kind == "cube" else (0, 1)      # a cube list cannot hold the (non-canonical) zero cube

        def mk_const(c_):
            fs = []
            for t_ in E.fts:
                fs.append(W(1, val=c_) if t_["k"] == "bool" else W(t_["w"], val=0))
            return Agg("adt", E.adt, 0, fs)
        for L in (1, 2, 3):
            for combo in _it.product(consts, repeat=L):
                key = "%s of the constant terms %s" % (short, list(combo))
                try:
                    it = Interp(facts, max_paths=256)
                    st0 = State()
                    cell = new_cell()
                    st0.mem[cell] = Arr([mk_const(c_) for c_ in combo])
                    f = [None, None]
                    f[C.nv] = wconst(64, 2)
                    f[C.cv] = Ptr(cell, (), (0, L), "vec")
                    c = new_cell()
                    st0.mem[c] = Agg("adt", C.adt, 0, f)
                    fc = new_cell()
                    st0.mem[fc] = Opaque("formatter", ((),))
                    outs = it.call_body(b, [Ptr(c, ()), Ptr(fc, ())], st0, {})
                    o, v, d = single_return(outs)
                    if o is not None:
                        txt = text_of(it.read_ptr(o.state, Ptr(fc, ())).data[0])
                        parts = txt.split(sep)
                        want = 0
                        for c_ in combo:
                            want = (want | c_) if red == "or" else (want ^ c_)
                        if not txt or any(p_ not in ("0", "1") for p_ in parts):
                            v, d = UNDECIDED, "text %r of constant terms is not a formula over 0 / 1 with the joiner %r" % (txt, sep)
                        else:
                            got = 0
                            for p_ in parts:
                                got = (got | int(p_)) if red == "or" else (got ^ int(p_))
                            v, d = (PROVED, "") if got == want else (REFUTED, "%s of the constant terms %s prints %r, which is %d, while the %s of the terms (value()) is %d" % (short, list(combo), txt, got, red.upper(), want))
                except Undecided as e:
                    v, d = UNDECIDED, e.cause
                chk.add("C16.K", key, v, d, where=where_of(b))
    # ------------------------------------------------------------------ C16.V what value() returns
    # C16.C/E/J compare the text with the denotation of the *representation*; the property compares it with what
    # value() returns: these are the value rules of C12/C13/C14/C15, re-run here so that C16 stands on its own
    cube_value_rule(chk, facts, cm, "C16.V")
    try:
        vi, xi = ecube_fields(facts)
        ecube_value_rule(chk, facts, vi, xi, facts.inherent_methods(ECUBE), "C16.V")
    except (KeyError, Undecided) as e:
        chk.undecided("C16.V", "Ecube::value", str(e))
    for adt, op in ((SOP, "or"), (SOES, "or"), (ESOP, "xor")):
        try:
            container_value_rule(chk, facts, Container(facts, adt), op, "C16.V")
            from ..window import window_value
            for L in (1, 2, 3):
                window_value(chk, "C16.V", facts, Container(facts, adt), L, op)
        except (KeyError, Undecided) as e:
            chk.undecided("C16.V", "%s::value" % adt.split("::")[-1], str(e))
    chk.notes["explanation"] = "token-level abstract interpretation of the Display impls; every abstract path of the cube printers fixes object and text, which are compared through the grammar"
