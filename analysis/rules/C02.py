"""C02 - equality/hash/order are extensional: no bit at or above 2^n, ever.

Inductive argument over all API histories:
  C02.O  the representation fields are private to the defining module, so only bodies of that
         module can write them; PartialEq/Eq/Hash compare exactly the fields (derive, or the
         abstract summary of eq equals field-wise equality); Ord::cmp compares all words.
  C02.I  every externally reachable body of the defining modules that returns a table or takes one
         by &mut is run on well-formed symbolic tables and valid arguments (partitioned): every
         table it hands back has table_size(n) blocks, the right num_vars and constant-0 bits at
         positions >= 2^n.  from_blocks is exempt by its stated precondition (copies verbatim).
"""
import itertools

from .. import facts as F
from .. import specs as S
from .. import api
from ..harness import *
from ..absint import RESULT, OPTION

LEVEL = "proof"


def module_of(key):
    return key.rsplit("::", 1)[0]


def find_tables(v, adt, out, depth=0):
    if depth > 6:
        return
    if isinstance(v, Agg):
        if v.key == adt:
            out.append(v)
            return
        for f in v.fields:
            find_tables(f, adt, out, depth + 1)
    elif isinstance(v, Arr):
        for f in v.elems[:4]:
            find_tables(f, adt, out, depth + 1)


def wellformed(env, kind, it, st, v, n, pc=()):
    K = env.kinds[kind]
    try:
        words = K.words(it, st, v)
    except Undecided as e:
        return UNDECIDED, e.cause
    nv = K.num_vars_of(v)
    if n is None and nv is not None and nv.val is not None:
        n = nv.val
    if n is not None and len(words) != table_words(n):
        return REFUTED, "table has %d blocks, expected %d" % (len(words), table_words(n))
    if nv is not None:
        if nv.val is None:
            return UNDECIDED, "symbolic num_vars"
        if n is None:
            n = nv.val
        elif nv.val != n:
            return REFUTED, "table has num_vars=%d, expected %d" % (nv.val, n)
    if n is None:
        return UNDECIDED, "no expected size"
    bits = bits_of_table(words, n)
    tops = 0
    for p in range(1 << n, len(bits)):
        b = bits[p]
        if b is None:
            tops += 1
        elif b != ZERO:
            s, w = pc_status(pc, extra=(W(1, bits=[b]),))
            if s == "unsat":
                continue
            if s == "unknown":
                tops += 1
                continue
            return REFUTED, "bit %d (>= 2^%d) can be set: %s, e.g. under %s" % (p, n, B.describe(b), w)
    if tops:
        return UNDECIDED, "%d unused bits are top" % tops
    return PROVED, ""


def outcome_tables_ok(env, kind, it, outs, mut_ptrs, n, need_return=True):
    """all feasible returning outcomes hand back well-formed tables"""
    K = env.kinds[kind]
    rets = returns(outs)
    worst = (PROVED, "")
    nt = 0
    for o in rets:
        s, w = pc_status(o.pc)
        if s == "unsat":
            continue
        tabs = []
        find_tables(o.value, K.adt, tabs)
        for p in mut_ptrs:
            tabs.append(it.read_ptr(o.state, p))
        for t in tabs:
            nt += 1
            v, d = wellformed(env, kind, it, o.state, t, n, o.pc)
            if v == REFUTED:
                return REFUTED, d
            if v == UNDECIDED and worst[0] == PROVED:
                worst = (UNDECIDED, d)
    if need_return and not rets:
        ps = panics(outs)
        return UNDECIDED, "no returning path (%s)" % (ps[0].info.get("msg") if ps else "?")
    return worst


def build_by_type(env, kind, ty, n, st, names, bool_choice, n_dyn=None, nq=None):
    """abstract argument from a type; returns (value, list of &mut table ptrs).  n_dyn: the (independent) variable
    count of a dynamic Lut handed to a StaticLut<N,T> impl (its n is a run-time quantity the type does not bind)"""
    K = env.kinds[kind]
    k = ty["k"]
    if k == "adt" and ty["path"] in (LUT_ADT, SLUT_ADT):
        K2 = env.kinds["dyn" if ty["path"] == LUT_ADT else "static"]
        if n_dyn is not None and ty["path"] == LUT_ADT and kind == "static":
            return K2.mk(st, n_dyn, sym_words(n_dyn, names.pop(0))), []
        if nq and ty["path"] == LUT_ADT:
            n = nq.pop(0)     # dynamic tables of different sizes in one call (clone_from, comparisons)
        return K2.mk(st, n, sym_words(n, names.pop(0))), []
    if k == "adt" and ty.get("local"):
        adt = env.facts.adts.get(ty["path"])
        if adt is None or len(adt["variants"]) != 1:
            raise Undecided("cannot build %s" % ty["s"])
        fs = []
        for f in adt["variants"][0]["fields"]:
            v, _ = build_by_type(env, kind, f["ty"], n, st, names, bool_choice, n_dyn, nq)
            fs.append(v)
        return Agg("adt", ty["path"], 0, fs), []
    if k == "adt" and ty["path"] in (api.LUT_PATHS if hasattr(api, "LUT_PATHS") else ()):
        raise Undecided("foreign table type")
    if k == "ref":
        v, _ = build_by_type(env, kind, ty["t"], n, st, names, bool_choice, n_dyn, nq)
        p = K.place(st, v)
        muts = [p] if ty["mut"] and isinstance(v, Agg) and v.key == K.adt else []
        if ty["mut"] and isinstance(v, Agg) and v.key != K.adt:
            muts = [("struct", p)]
        return p, muts
    if k in ("uint", "int"):
        return watoms(ty["w"], "arg"), []
    if k == "bool":
        return wbool(bool_choice), []
    raise Undecided("cannot build argument of type %s" % ty["s"])


def run(chk):
    facts = F.load("dbg")
    env = Env(facts)
    nmax = 6 if chk.tier == "quick" else 8
    chk.trust("rustc privacy checking (fields restricted to the defining module cannot be written elsewhere)")
    chk.trust("rustc MIR construction and constant evaluation; std summaries (analysis/stdmodel.py)")
    chk.assume("from_blocks is given well-formed blocks (stated precondition of the property)")
    chk.assume("unsafe code absent (checked: no unsafe block in any body) and no interior mutability in the table types")
    # ------------------------------------------------------------------ C02.O
    shape = env.shape
    mods = {}
    for adt_path in (LUT_ADT, SLUT_ADT):
        adt = facts.adts[adt_path]
        mod = module_of(adt["key"])
        mods[adt_path] = mod
        for f in adt["variants"][0]["fields"]:
            ok = f["vis"] == "in " + mod
            chk.add("C02.O.private", "field %s.%s" % (adt_path, f["name"]), PROVED if ok else REFUTED,
                    "" if ok else "representation field visible outside its module (%s)" % f["vis"])
    n_unsafe = [b["path"] for b in facts.lib_bodies() if b.get("unsafe_block")]
    chk.add("C02.O.no-unsafe", "no unsafe blocks in the crate", PROVED if not n_unsafe else UNDECIDED, ", ".join(n_unsafe[:3]))
    # equality / hash
    for kind in ("dyn", "static"):
        K = env.kinds[kind]
        impls = {tr["path"]: (b, b["impl"]["derived"]) for b, sty, tr in facts.trait_impl_methods() if sty.get("path") == K.adt and tr["path"] in ("std::cmp::PartialEq", "std::hash::Hash", "std::cmp::Ord", "std::cmp::PartialOrd")}
        eqb = impls.get("std::cmp::PartialEq")
        if eqb is None:
            chk.refuted("C02.O.eq", "anchor-missing: PartialEq for %s" % K.adt, "no PartialEq impl")
        else:
            for n in range(0, nmax + 1):
                key = "<%s as PartialEq>::eq n=%d" % (K.adt, n)
                try:
                    it, outs, ops = call_with_tables(env, kind, eqb[0], n, ["a", "b"])
                    o, v, d = single_return(outs)
                    if o is not None:
                        exp = mk_cs_eq(n)
                        v, d = bool_equal(o.value, exp)
                except Undecided as e:
                    v, d = UNDECIDED, e.cause
                chk.add("C02.O.eq", key, v, d, where=where_of(eqb[0]))
            if kind == "dyn":
                # different num_vars compare unequal
                for (n1, n2) in ((2, 3), (6, 7), (0, 1)):
                    key = "<%s as PartialEq>::eq n=%d vs %d" % (K.adt, n1, n2)
                    try:
                        it = env.interp()
                        st = State()
                        pa = K.place(st, K.mk(st, n1, sym_words(n1, "a")))
                        pb = K.place(st, K.mk(st, n2, sym_words(n2, "b")))
                        outs = it.call_body(eqb[0], [pa, pb], st, {})
                        o, v, d = single_return(outs)
                        if o is not None:
                            r = o.value
                            if isinstance(r, W) and r.val == 0:
                                v, d = PROVED, ""
                            elif isinstance(r, W) and r.val == 1:
                                v, d = REFUTED, "tables with different variable counts compare equal"
                            else:
                                st_, w = pc_status((r,))
                                v, d = (REFUTED, "tables with %d and %d variables can compare equal" % (n1, n2)) if st_ == "sat" else (UNDECIDED, "eq result not decided")
                    except Undecided as e:
                        v, d = UNDECIDED, e.cause
                    chk.add("C02.O.eq", key, v, d, where=where_of(eqb[0]))
        hb = impls.get("std::hash::Hash")
        if hb is None:
            chk.refuted("C02.O.hash", "anchor-missing: Hash for %s" % K.adt, "no Hash impl")
        else:
            chk.add("C02.O.hash", "Hash for %s is derived over the fields eq compares" % K.adt, PROVED if hb[1] else UNDECIDED, "" if hb[1] else "hand-written Hash is not analysed")
        ob = impls.get("std::cmp::Ord")
        if ob is None:
            chk.refuted("C02.O.ord", "anchor-missing: Ord for %s" % K.adt, "no Ord impl")
        else:
            for n in (0, 3, 6, 7, 8):
                key = "<%s as Ord>::cmp covers all words n=%d" % (K.adt, n)
                try:
                    from ..absint import ult_mode
                    with ult_mode():
                        it, outs, ops = call_with_tables(env, kind, ob[0], n, ["a", "b"])
                    o, v, d = single_return(outs)
                    if o is not None:
                        v, d = lexcmp_covers(it, o, n)
                    elif len(returns(outs)) > 1 and not panics(outs):
                        # comparison written as control flow: recognised as a lexicographic comparison of every block
                        order = lex_order(outs, sym_words(n, "a"), sym_words(n, "b"))
                        if order is not None and sorted(order) == list(range(table_words(n))):
                            v, d = PROVED, ""
                except Undecided as e:
                    v, d = UNDECIDED, e.cause
                chk.add("C02.O.ord", key, v, d, where=where_of(ob[0]))
            if kind == "dyn":
                for (n1, n2) in ((0, 1), (2, 3), (5, 6), (6, 7), (3, 8)):
                    key = "<%s as Ord>::cmp n=%d vs %d is never Equal" % (K.adt, n1, n2)
                    try:
                        it = env.interp()
                        st = State()
                        pa = K.place(st, K.mk(st, n1, sym_words(n1, "a")))
                        pb = K.place(st, K.mk(st, n2, sym_words(n2, "b")))
                        outs = it.call_body(ob[0], [pa, pb], st, {})
                        o, v, d = single_return(outs)
                        if o is not None:
                            r = o.value
                            if isinstance(r, Agg) and r.key == "std::cmp::Ordering":
                                v, d = (PROVED, "") if r.variant != 1 else (REFUTED, "tables with %d and %d variables compare Equal" % (n1, n2))
                            elif isinstance(r, Opaque) and r.kind == "lexcmp":
                                v, d = REFUTED, "tables with %d and %d variables are compared by their blocks only: equal blocks compare Equal although the functions differ (Ord disagrees with Eq)" % (n1, n2)
                            else:
                                v, d = UNDECIDED, "ordering summary %r" % (r,)
                    except Undecided as e:
                        v, d = UNDECIDED, e.cause
                    chk.add("C02.O.ord", key, v, d, where=where_of(ob[0]))
    # ------------------------------------------------------------------ C02.I
    producers = 0
    for kind in ("dyn", "static"):
        K = env.kinds[kind]
        mod = mods[K.adt]
        # inherent methods
        for name, b in sorted(K.methods.items()):
            if b["vis"] != "pub":
                continue
            out_s = b["sig"]["output"]["s"]
            takes_mut = any(t["k"] == "ref" and t["mut"] and t["t"].get("path") == K.adt for t in b["sig"]["inputs"])
            returns_tab = K.adt in out_s or "Iterator" in out_s
            if not (takes_mut or returns_tab):
                continue
            cls = api.classes(kind, name)
            if cls is None:
                chk.undecided("C02.I", "unclassified-api %s::%s" % (K.adt, name), "public method not in the classification table (analysis/api.py)")
                continue
            producers += 1
            for n in range(0, nmax + 1):
                if name in ("p_canonization", "n_canonization", "npn_canonization") and n > (3 if chk.tier == "quick" else 5):
                    continue
                if name == "npn_canonization" and n > 3:
                    continue
                vals = [api.valid_values(c, n) for c in cls]
                for combo in itertools.product(*vals):
                    if name in ("swap", "swap_inplace") and n > 4 and (combo[0] + combo[1]) % 3 and chk.tier == "quick":
                        continue
                    key = "%s::%s n=%d%s" % (K.adt, name, n, "".join(" %s=%s" % (c, x) for c, x in zip(cls, combo) if c != "n"))
                    try:
                        it = env.interp()
                        it.join_on_top = True
                        it.call_hooks = (cmp_kernel_hook(facts),)
                        st = State()
                        args, muts, names = [], [], ["a", "b"]
                        ci = 0
                        for ty in b["sig"]["inputs"]:
                            if is_table_ty(ty, K.adt) or (ty["k"] == "ref" and is_table_ty(ty["t"], K.adt)):
                                v, m = build_by_type(env, kind, ty, n, st, names, 1)
                                args.append(v)
                                muts += m
                            else:
                                args.append(api.build_value(cls[ci], combo[ci], n, st))
                                ci += 1
                        outs = it.call_body(b, args, st, K.env(n))
                        if name == "from_blocks":
                            o, v, d = single_return(outs)
                            if o is not None:
                                v, d = check_table_value(env, kind, it, o.state, o.value, n, S.identity(n, "blk"), o.pc)
                                d = d and "from_blocks does not copy verbatim: " + d
                        else:
                            v, d = outcome_tables_ok(env, kind, it, outs, muts, n, need_return=(name not in ("from_hex_string",)))
                    except Undecided as e:
                        v, d = UNDECIDED, e.cause
                    chk.add("C02.I", key, v, d, where=where_of(b),
                            sample=dict(obligation=key, verdict=v) if len(chk.samples) < 12 and n == 2 else None)
        # trait impls living in the defining module (operators, Default, Clone, iterators, conversions)
        for b, sty, tr in facts.trait_impl_methods():
            if module_of(b["impl"]["key"]) != mod:
                continue
            out_s = b["sig"]["output"]["s"]
            ins = b["sig"]["inputs"]
            mentions = lambda t: K.adt in t["s"] or "Iterator" in t["s"]
            takes_mut = any(t["k"] == "ref" and t["mut"] and mentions(t) for t in ins)
            if not (takes_mut or K.adt in out_s):
                continue
            if tr["path"] in ("std::fmt::Debug", "std::fmt::Display", "std::fmt::LowerHex", "std::fmt::Binary", "std::hash::Hash"):
                continue
            label = "<%s as %s>::%s" % (sty["s"], tr["s"], b["name"])
            # which n: concrete const args in the self type / trait args fix n
            fixed = fixed_n(sty, tr, ins, b["sig"]["output"], K.adt)
            producers += 1
            no_inputs = not ins and kind == "dyn"
            # a dynamic Lut handed to a generic StaticLut<N,T> impl carries its own run-time n: every (n_in, N) pair
            cross = kind == "static" and fixed is None and any(mentions_path(t, LUT_ADT) for t in ins)
            nlist = [fixed] if fixed is not None else ([None] if no_inputs else range(0, nmax + 1))
            combos = [(n, nd) for n in nlist for nd in (range(0, nmax + 3) if cross else (None,))]
            # two dynamic tables in one call may have different sizes (clone_from, eq, cmp ...): the result must
            # still be well formed for the num_vars it carries (a panic is fine)
            two_dyn = kind == "dyn" and sum(1 for t in ins if mentions_path(t, LUT_ADT)) >= 2
            if two_dyn and fixed is None:
                combos += [(n, ("pair", n2)) for n in (0, 3, 5, 6, 7) for n2 in (0, 2, 5, 6, 7, 8) if n2 != n]
            for n, n_dyn in combos:
                nq = None
                if isinstance(n_dyn, tuple):
                    nq = [n, n_dyn[1]]
                    n_dyn = None
                for bool_choice in ((0, 1) if any("Iterator" in t["s"] for t in ins) else (1,)):
                    key = "%s n=%s%s%s%s" % (label, n, " ok=%d" % bool_choice if any("Iterator" in t["s"] for t in ins) else "",
                                             " n_in=%d" % n_dyn if n_dyn is not None else "", " other n=%d" % nq[1] if nq else "")
                    try:
                        it = env.interp()
                        it.join_on_top = True
                        st = State()
                        args, muts, names = [], [], ["a", "b"]
                        nq_used = nq is not None
                        nq_run = list(nq) if nq else None
                        for ty in ins:
                            v, m = build_by_type(env, kind, ty, n, st, names, bool_choice, n_dyn, nq_run)
                            args.append(v)
                            muts += m
                        envn = K.env(n) if kind == "static" and n is not None else ({"N": n, "T": table_words(n)} if b["generics"] else {})
                        outs = it.call_body(b, args, st, envn)
                        tab_muts = [m for m in muts if not isinstance(m, tuple)]
                        v, d = outcome_tables_ok(env, kind, it, outs, tab_muts, None if nq_used else n, need_return=(tr["path"] != "std::convert::TryFrom" and not nq_used))
                        if v == PROVED:
                            # tables stored inside mutated structs (iterators)
                            for m in muts:
                                if isinstance(m, tuple):
                                    for o in returns(outs):
                                        tabs = []
                                        find_tables(it.read_ptr(o.state, m[1]), K.adt, tabs)
                                        for t in tabs:
                                            v2, d2 = wellformed(env, kind, it, o.state, t, n)
                                            if v2 != PROVED:
                                                v, d = v2, d2
                    except Undecided as e:
                        v, d = UNDECIDED, e.cause
                    chk.add("C02.I", key, v, d, where=where_of(b))
    chk.floor("C02.I producers", producers, 2 * 30)
    # ------------------------------------------------------------------ C02.X
    # producers outside the defining modules: they can only build a table through the modules' public API, whose one
    # precondition is from_blocks' "blocks are well formed" - conversions of the term containers are interpreted on
    # windows of real terms and every bit at a position >= 2^n of the result must be 0 for every choice of terms
    from ..sopmodel import Container
    from ..window import to_lut_rules
    outside = 0
    for adt_path, red in (("sop::sop::Sop", "or"), ("sop::esop::Esop", "xor"), ("sop::soes::Soes", "or")):
        try:
            outside += to_lut_rules(chk, "C02.X", facts, Container(facts, adt_path), red, chk.tier, only_high=True)
        except (KeyError, Undecided) as e:
            chk.undecided("C02.X", "conversions of %s" % adt_path, str(getattr(e, "cause", e)))
    # any other body outside the defining modules that calls from_blocks is not covered by C02.X
    covered_callers = set()
    for bd, sty, tr in facts.trait_impl_methods("std::convert::From"):
        covered_callers.add(bd["key"])
    for b in facts.lib_bodies():
        if any(b["key"].startswith(m_ + "::") for m_ in mods.values()) or b["key"] in covered_callers:
            continue
        for blk in b["mir"]["blocks"]:
            t_ = blk["term"]
            f_ = (t_.get("func") or {}) if t_["k"] == "call" else {}
            callee = (f_.get("resolved") or {}).get("path") or f_.get("path") or ""
            if callee.endswith("::from_blocks"):
                chk.undecided("C02.X", "from_blocks called in %s" % b["path"], "caller outside the table modules is not analysed for the precondition of from_blocks")
    chk.notes["n_range"] = [0, nmax]
    chk.notes["explanation"] = ("inductive invariant over all API histories: representation private to the defining modules (rustc privacy) + "
                                "every externally reachable body of those modules that hands back or mutates a table preserves 'no bit >= 2^n, table_size(n) blocks' "
                                "on symbolic well-formed inputs (bitflow abstract interpretation of MIR); eq/hash/cmp compare exactly the representation")
    if chk.tier == "thorough":
        from .. import witnesses
        witnesses.run(chk, "C02", ['W1'])

LUT_ADT = "lut::Lut"
SLUT_ADT = "static_lut::StaticLut"


def mentions_path(t, path):
    if t.get("path") == path:
        return True
    return any(mentions_path(x, path) for x in ([t["t"]] if isinstance(t.get("t"), dict) else []) + list(t.get("args") or []) if isinstance(x, dict))


def fixed_n(sty, tr, ins, out, adt):
    """a concrete N in the impl header (e.g. From<u8> for StaticLut<3,1>)"""
    def scan(t):
        if t is None:
            return None
        if t.get("k") == "adt" and t.get("path") == adt:
            for a in t.get("args", []):
                if a["k"] == "const" and a["c"]["k"] == "int":
                    return a["c"]["v"]
            return None
        for sub in ("t",):
            if isinstance(t.get(sub), dict):
                r = scan(t[sub])
                if r is not None:
                    return r
        for a in t.get("args", []) or []:
            if isinstance(a, dict):
                r = scan(a)
                if r is not None:
                    return r
        for a in t.get("ts", []) or []:
            r = scan(a)
            if r is not None:
                return r
        return None
    for t in [sty] + list(ins) + [out] + list(tr.get("args", [])):
        r = scan(t)
        if r is not None:
            return r
    return None


def mk_cs_eq(n):
    from ..absint import mk_cs
    return mk_cs([B.bxor(B.atom("a[%d]" % p), B.atom("b[%d]" % p)) for p in range(1 << n)])


def bool_equal(got, exp):
    """equality of two abstract Booleans (W1 / CS)"""
    from ..absint import _as_cs
    if isinstance(got, TopV):
        return UNDECIDED, "eq result is top (%s)" % got.cause
    g, e = _as_cs(got), _as_cs(exp)
    if g is None or e is None:
        return UNDECIDED, "eq result not a Boolean summary"
    if g.has_top():
        return UNDECIDED, "eq summary contains top"
    if g.neg == e.neg and g.clauses == e.clauses:
        return PROVED, ""
    # definite difference: find an assignment separating them (small supports only)
    missing = [c for c in e.clauses if c not in g.clauses]
    extra = [c for c in g.clauses if c not in e.clauses]
    if g.neg == e.neg and missing and not extra:
        c = missing[0]
        return REFUTED, "equality ignores a difference: %s is not compared" % B.describe(c)
    return UNDECIDED, "eq summary differs in shape from field-wise equality"


def lexcmp_covers(it, o, n):
    v = o.value
    if isinstance(v, Opaque) and v.kind == "lexcmp":
        la, lb = v.data[0], v.data[1]
        want = table_words(n)
        if len(la) != want or len(lb) != want:
            return REFUTED, "ordering compares %d/%d words of %d" % (len(la), len(lb), want)
        # Equal must mean "same table": position k of the left sequence must be word j of a exactly when
        # position k of the right sequence is word j of b
        wa = {tuple(w.all_bits()): j for j, w in enumerate(sym_words(n, "a"))}
        wb = {tuple(w.all_bits()): j for j, w in enumerate(sym_words(n, "b"))}
        seen = set()
        for x, y in zip(la, lb):
            ja, jb = wa.get(tuple(x.all_bits())), wb.get(tuple(y.all_bits()))
            if ja is None or jb is None:
                return UNDECIDED, "compared values are not words of the two tables"
            if ja != jb:
                return REFUTED, "ordering compares block %d of one table with block %d of the other: tables that are equal can compare unequal and different tables Equal" % (ja, jb)
            seen.add(ja)
        if len(seen) != want:
            return REFUTED, "ordering ignores some blocks"
        return PROVED, ""
    if isinstance(v, Agg) and v.key == "std::cmp::Ordering":
        return UNDECIDED, "concrete ordering on symbolic tables"
    return UNDECIDED, "ordering summary not recognised"
