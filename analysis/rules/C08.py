"""C08 - ordering is numeric order of the table; all_functions enumerates it.

C08.O  Ord::cmp of both types, on symbolic tables, is "lexicographic order of the two word
       sequences taken most-significant word first, words compared as unsigned integers"
       (summary of Iterator::cmp over reversed views); Lut compares num_vars first;
       PartialOrd forwards to Ord.
C08.S  successor step of the iterators: per word w' = (w + 1) & mask(n), the next word is touched
       exactly when w' == 0, `false` is returned exactly when every word wrapped
       (n <= 2: exact bit functions; n >= 3: word-level terms of every path).
C08.I  iterator protocol: next() hands out a copy of the current table before stepping, stores
       the step result in its flag, and returns None without touching the table once the flag
       is false; all_functions starts from constant zero with the flag set.
Not decided: transitivity/antisymmetry of integer comparison (trusted), the induction from the
per-step facts to "every function exactly once" (stated), agreement with hex-string order (C09).
"""
from .. import facts as F
from .. import specs as S
from .. import absint
from ..harness import *
from ..absint import ult_mode
from ..absint import OPTION, ORDERING
from .C02 import build_by_type, find_tables

LEVEL = "other"


def nn(t):
    """normalise double negation in condition terms"""
    while isinstance(t, tuple) and t and t[0] == "not" and isinstance(t[1], tuple) and t[1] and t[1][0] == "not":
        t = t[1][1]
    return t


def skey(x):
    return repr(x)


def t_add1(j, name="a"):
    return ("add",) + tuple(sorted([("in", name, j), ("c", 1)], key=skey))


def t_step(j, n, name="a"):
    m = (1 << (1 << n)) - 1 if n < 6 else (1 << 64) - 1
    a = t_add1(j, name)
    if m == (1 << 64) - 1:
        return a
    return ("and",) + tuple(sorted([a, ("c", m)], key=skey))


def t_eq0(t):
    return ("eq",) + tuple(sorted([t, ("c", 0)], key=skey))


def iterator_adts(facts, K):
    """iterator structs of a table type: local ADT with one field of the table type and one bool"""
    out = []
    for path, adt in facts.adts.items():
        fs = adt["variants"][0]["fields"] if len(adt["variants"]) == 1 else []
        if len(fs) == 2 and any(f["ty"].get("path") == K.adt for f in fs) and any(f["ty"]["k"] == "bool" for f in fs):
            ti = [i for i, f in enumerate(fs) if f["ty"].get("path") == K.adt][0]
            out.append((path, ti, 1 - ti))
    return out


def run(chk):
    facts = F.load("dbg")
    frel = F.load("rel") if chk.tier == "thorough" else None
    env = Env(facts)
    chk.trust("Iterator::cmp over slice iterators is lexicographic with Ord of u64 (std); integer comparison is a total order")
    chk.trust("lemma: per-word (w+1)&mask with carry into the next word exactly on wrap-around is the numeric successor of the 2^n-bit number")
    chk.assume("every function exactly once, in increasing order: induction over the successor steps (premises decided here)")
    nlist = [0, 1, 2, 3, 5, 6, 7, 8] if chk.tier == "quick" else list(range(0, 11))
    # ------------------------------------------------------------------ C08.E  the order agrees with equality
    # cmp gives Equal exactly for the same number of variables and the same values (C08.O, C02.O.ord); `==` must
    # say the same: same-size tables are equal iff every word is (C02.O.eq proves it, re-run here on the sizes that
    # share a block count) and tables of different sizes are never equal although their blocks may be
    KD = env.kinds["dyn"]
    eqs = [b_ for b_, sty, tr in facts.trait_impl_methods("std::cmp::PartialEq") if sty.get("path") == KD.adt and b_["name"] == "eq"]
    if not eqs:
        chk.refuted("C08.E", "anchor-missing: PartialEq for %s" % KD.adt, "no PartialEq impl")
    else:
        for (n1, n2) in ((0, 1), (2, 3), (5, 6), (6, 7), (3, 8)):
            key = "<%s as PartialEq>::eq n=%d vs %d" % (KD.adt, n1, n2)
            try:
                it = env.interp()
                st = State()
                pa = KD.place(st, KD.mk(st, n1, sym_words(n1, "a")))
                pb_ = KD.place(st, KD.mk(st, n2, sym_words(n2, "b")))
                outs = it.call_body(eqs[0], [pa, pb_], st, {})
                o, v, d = single_return(outs)
                if o is not None:
                    r = o.value
                    if isinstance(r, W) and r.val == 0:
                        v, d = PROVED, ""
                    elif isinstance(r, W) and r.val == 1:
                        v, d = REFUTED, "tables with %d and %d variables compare equal, cmp orders them" % (n1, n2)
                    else:
                        st_, w = pc_status((r,))
                        v, d = (REFUTED, "tables with %d and %d variables can be `==` (e.g. %s) while cmp never gives Equal for different sizes" % (n1, n2, w)) if st_ == "sat" else ((PROVED, "") if st_ == "unsat" else (UNDECIDED, "eq result not decided"))
            except Undecided as e:
                v, d = UNDECIDED, e.cause
            chk.add("C08.E", key, v, d, where=where_of(eqs[0]))
    # ------------------------------------------------------------------ C08.O
    for kind in ("dyn", "static"):
        K = env.kinds[kind]
        impls = {tr["path"]: b for b, sty, tr in facts.trait_impl_methods("std::cmp::") if sty.get("path") == K.adt}
        ob, pb = impls.get("std::cmp::Ord"), impls.get("std::cmp::PartialOrd")
        if ob is None or pb is None:
            chk.refuted("C08.O", "anchor-missing: Ord/PartialOrd for %s" % K.adt, "impl not found")
            continue
        for n in nlist:
            key = "<%s as Ord>::cmp n=%d" % (K.adt, n)
            try:
                with ult_mode():
                    it, outs, ops = call_with_tables(env, kind, ob, n, ["a", "b"])
                o, v, d = single_return(outs)
                if o is not None:
                    v, d = check_lexcmp(o.value, n)
                elif len(returns(outs)) > 1:
                    # comparison written as control flow (explicit loop with early returns)
                    order = lex_order(outs, sym_words(n, "a"), sym_words(n, "b"))
                    T = table_words(n)
                    if order == list(range(T - 1, -1, -1)):
                        v, d = PROVED, ""
                    elif order is not None and T > 1:
                        v, d = REFUTED, "blocks are compared in the order %s, not most significant first" % order
                    else:
                        v, d = UNDECIDED, "comparison control flow not recognised"
            except Undecided as e:
                v, d = UNDECIDED, e.cause
            chk.add("C08.O", key, v, d, where=where_of(ob), sample=dict(obligation=key, verdict=v) if n == 7 else None)
            key = "<%s as PartialOrd>::partial_cmp n=%d" % (K.adt, n)
            try:
                with ult_mode():
                    it, outs, ops = call_with_tables(env, kind, pb, n, ["a", "b"])
                o, v, d = single_return(outs)
                if o is not None:
                    r = o.value
                    if isinstance(r, Agg) and r.key == OPTION and r.variant == 1:
                        v, d = check_lexcmp(r.fields[0], n)
                    else:
                        v, d = (REFUTED, "partial_cmp returns None") if isinstance(r, Agg) and r.key == OPTION else (UNDECIDED, "result %r" % (r,))
                elif len(returns(outs)) > 1:
                    order = lex_order(outs, sym_words(n, "a"), sym_words(n, "b"), unwrap_some=True)
                    T = table_words(n)
                    if order == list(range(T - 1, -1, -1)):
                        v, d = PROVED, ""
                    elif order is not None and T > 1:
                        v, d = REFUTED, "blocks are compared in the order %s, not most significant first" % order
                    else:
                        v, d = UNDECIDED, "comparison control flow not recognised"
            except Undecided as e:
                v, d = UNDECIDED, e.cause
            chk.add("C08.O", key, v, d, where=where_of(pb))
        if kind == "dyn":
            for (n1, n2) in ((2, 3), (3, 2), (0, 1), (6, 7), (7, 6), (5, 9), (9, 5)):
                key = "<%s as Ord>::cmp n=%d vs %d" % (K.adt, n1, n2)
                try:
                    it = env.interp()
                    st = State()
                    pa = K.place(st, K.mk(st, n1, sym_words(n1, "a")))
                    pb_ = K.place(st, K.mk(st, n2, sym_words(n2, "b")))
                    outs = it.call_body(ob, [pa, pb_], st, {})
                    o, v, d = single_return(outs)
                    if o is not None:
                        r = o.value
                        want = 0 if n1 < n2 else 2
                        if isinstance(r, Agg) and r.key == ORDERING:
                            v, d = (PROVED, "") if r.variant == want else (REFUTED, "a %d-variable table does not compare %s a %d-variable one" % (n1, "below" if n1 < n2 else "above", n2))
                        elif isinstance(r, Opaque) and r.kind == "lexcmp":
                            v, d = REFUTED, "tables of %d and %d variables are ordered by their blocks instead of their variable counts (e.g. the two constant-zero tables compare Equal although they are different functions)" % (n1, n2)
                        else:
                            v, d = UNDECIDED, "ordering depends on table contents: %r" % (r,)
                except Undecided as e:
                    v, d = UNDECIDED, e.cause
                chk.add("C08.O", key, v, d, where=where_of(ob))
                key = "<%s as PartialOrd>::partial_cmp n=%d vs %d" % (K.adt, n1, n2)
                try:
                    it = env.interp()
                    st = State()
                    pa = K.place(st, K.mk(st, n1, sym_words(n1, "a")))
                    pb_ = K.place(st, K.mk(st, n2, sym_words(n2, "b")))
                    outs = it.call_body(pb, [pa, pb_], st, {})
                    o, v, d = single_return(outs)
                    if o is not None:
                        r = o.value
                        want = 0 if n1 < n2 else 2
                        if isinstance(r, Agg) and r.key == OPTION:
                            if r.variant == 0:
                                v, d = REFUTED, "tables of %d and %d variables are incomparable (partial_cmp returns None): the order is not total" % (n1, n2)
                            elif isinstance(r.fields[0], Agg) and r.fields[0].key == ORDERING:
                                v, d = (PROVED, "") if r.fields[0].variant == want else (REFUTED, "partial_cmp orders a %d-variable table %s a %d-variable one" % (n1, "above" if n1 < n2 else "below", n2))
                            else:
                                v, d = UNDECIDED, "ordering depends on table contents"
                        else:
                            v, d = UNDECIDED, "result %r" % (r,)
                except Undecided as e:
                    v, d = UNDECIDED, e.cause
                chk.add("C08.O", key, v, d, where=where_of(pb))
    # ------------------------------------------------------------------ C08.W word comparison on windows
    order_windows(chk, env)
    # ------------------------------------------------------------------ C08.S / C08.I
    cfgs = [("dbg", env)] + ([("rel", Env(frel))] if frel else [])
    for cfg, e in cfgs:
        for kind in ("dyn", "static"):
            K = e.kinds[kind]
            its = iterator_adts(e.facts, K)
            nexts = [(b, sty) for b, sty, tr in e.facts.trait_impl_methods("std::iter::Iterator") if b["name"] == "next" and any(sty.get("path") == p for p, _, _ in its)]
            if not nexts:
                # the iterator struct is internal: another shape than (table, flag) is not analysed, which decides nothing
                chk.undecided("C08.I", "iterator of %s%s" % (K.adt, "" if cfg == "dbg" else " [rel]"), "no iterator struct of the shape (table, bool) with an Iterator impl: its typestate is not analysed")
                continue
            nb, sty = nexts[0]
            ipath, ti, oi = [x for x in its if x[0] == sty["path"]][0]
            tag = "" if cfg == "dbg" else " [rel]"
            for n in nlist:
                T = table_words(n)
                # which value of the Boolean field means "live" is read off the start state (`ok: true` and
                # `done: false` are the same iterator); the runs below then require that a live iterator yields
                live = 1
                # ---- all_functions start state
                key = "%s::all_functions n=%d%s" % (K.adt, n, tag)
                try:
                    it = e.interp()
                    outs = it.call_body(K.method("all_functions"), [usize(n)] if kind == "dyn" else [], State(), K.env(n))
                    o, v, d = single_return(outs)
                    if o is not None:
                        r = o.value
                        if not (isinstance(r, Agg) and r.key == ipath):
                            v, d = UNDECIDED, "result %r" % (r,)
                        else:
                            fl = r.fields[oi]
                            v, d = check_table_value(e, kind, it, o.state, r.fields[ti], n, S.const(n, 0), o.pc)
                            if v == PROVED and not (isinstance(fl, W) and fl.val is not None):
                                v, d = UNDECIDED, "start flag %r" % (fl,)
                            elif v == PROVED:
                                live = fl.val
                except Undecided as ex:
                    v, d = UNDECIDED, ex.cause
                chk.add("C08.I", key, v, d, where=where_of(K.method("all_functions")))
                # ---- next with flag false
                for ok in (0, 1):
                    key = "%s::next n=%d ok=%d%s" % (ipath, n, ok, tag)
                    absint.TRACK[0] = True
                    try:
                        it = e.interp()
                        st = State()
                        tab = K.mk(st, n, sym_words(n, "a"))
                        fs = [None, None]
                        fs[ti] = tab
                        fs[oi] = wbool(live if ok else 1 - live)
                        ip = K.place(st, Agg("adt", ipath, 0, fs))
                        outs = it.call_body(nb, [ip], st, K.env(n))
                        v, d = check_next(e, kind, it, outs, ip, ti, oi, n, ok, live)
                    except Undecided as ex:
                        v, d = UNDECIDED, ex.cause
                    finally:
                        absint.TRACK[0] = False
                    chk.add("C08.S" if ok else "C08.I", key, v, d, where=where_of(nb),
                            sample=dict(obligation=key, words=T, mode="exact bits" if n <= 2 else "word terms per path", verdict=v) if n in (2, 7) and ok else None)
    chk.notes["explanation"] = "order summary of Ord::cmp on symbolic tables; per-path word-level terms of the successor step; iterator typestate"
    chk.notes["n_values"] = nlist


def check_lexcmp(v, n):
    if not (isinstance(v, Opaque) and v.kind == "lexcmp"):
        if isinstance(v, Agg) and v.key == ORDERING and n == 0:
            return UNDECIDED, "concrete ordering"
        return UNDECIDED, "ordering summary not recognised: %r" % (v,)
    la, lb = v.data
    T = table_words(n)
    # words wider than a block (two blocks widened into a u128, say): the lexicographic order of wide unsigned words is
    # the lexicographic order of their 64-bit pieces, most significant first - judge the comparison on the pieces
    if len(la) == len(lb) and any(isinstance(w, W) and w.width > 64 for w in list(la) + list(lb)):
        if not all(isinstance(x, W) and isinstance(y, W) and x.width == y.width and x.width % 64 == 0 for x, y in zip(la, lb)):
            return UNDECIDED, "ordering compares words of unequal or odd widths"

        def pieces(seq):
            out = []
            for w in seq:
                bs = w.all_bits()
                for k in reversed(range(w.width // 64)):
                    out.append(W(64, bits=bs[64 * k:64 * k + 64]))
            return out
        la, lb = pieces(la), pieces(lb)
    if len(la) != T or len(lb) != T:
        return REFUTED, "ordering compares %d/%d of %d words" % (len(la), len(lb), T)
    ea = [w.all_bits() for w in reversed(sym_words(n, "a"))]
    eb = [w.all_bits() for w in reversed(sym_words(n, "b"))]
    ga, gb = [w.all_bits() for w in la], [w.all_bits() for w in lb]
    if ga == ea and gb == eb:
        return PROVED, ""
    if ga == eb and gb == ea:
        return REFUTED, "operands are compared in the opposite order (b against a)"
    if T > 1 and ga == list(reversed(ea)) and gb == list(reversed(eb)):
        return REFUTED, "tables are compared least-significant word first"
    if any(b is None for w in ga + gb for b in w):
        return UNDECIDED, "compared words contain top"
    return REFUTED, "ordering does not compare the two tables word for word, most significant first"


def check_next(e, kind, it, outs, ip, ti, oi, n, ok, live=1):
    K = e.kinds[kind]
    T = table_words(n)
    rets = returns(outs)
    for o in panics(outs):
        s, w = pc_status(o.pc)
        if s == "sat" or (s == "unknown" and o.info.get("definite")):
            if s == "sat":
                return REFUTED, "next() panics (%s in %s) %s" % (o.info.get("msg"), o.info.get("fn"), w or "")
        if s == "unknown":
            # overflow assertion on a word with top bits: a definite witness is the all-ones word
            if o.info.get("profile_dependent"):
                return REFUTED, "successor step has an overflow check that fails when a word is all ones (%s in %s): panics with overflow checks, wraps without" % (o.info.get("msg"), o.info.get("fn"))
            return UNDECIDED, "possible panic %s" % o.info.get("msg")
    if not ok:
        # an exhausted iterator returns None on every path and stays exhausted (a consumer such as `zip` polls again
        # after the end: a flag that comes back on would yield the functions a second time)
        verdict = (PROVED, "")
        nlive = 0
        for o in rets:
            s, w = pc_status(o.pc) if o.pc else ("sat", None)
            if s == "unsat":
                continue
            nlive += 1
            r = o.value
            if not (isinstance(r, Agg) and r.key == OPTION):
                return UNDECIDED, "result %r" % (r,)
            if r.variant != 0:
                return REFUTED, "an exhausted iterator yields another item"
            itv = it.read_ptr(o.state, ip)
            fl = itv.fields[oi]
            if isinstance(fl, W) and fl.val is not None:
                if fl.val == live and s == "sat":
                    return REFUTED, "an exhausted iterator is live again after returning None (its flag is set by that call%s): polling it once more yields functions a second time" % (", e.g. for %s" % w if w else "")
                if fl.val == live:
                    verdict = (UNDECIDED, "flag set on a path of unknown feasibility")
            elif isinstance(fl, W):
                s2, w2 = pc_status(tuple(o.pc) + ((fl if live else b_not(fl)),))
                if s2 == "sat":
                    return REFUTED, "an exhausted iterator can be live again after returning None (flag %s, e.g. for %s)" % (B.describe(fl.bits[0]), w2)
                if s2 != "unsat":
                    verdict = (UNDECIDED, "flag after the end not decided")
            else:
                verdict = (UNDECIDED, "flag %r" % (fl,))
        if not nlive:
            return UNDECIDED, "no return path"
        return verdict
    # live iterator
    if n <= 2:
        # exact: all paths merged or few; compare bits with a + 1 mod 2^(2^n)
        nb = 1 << n
        a = [B.atom("a[%d]" % p) for p in range(nb)]
        exp = []
        carry = ONE
        for p in range(nb):
            exp.append(B.bxor(a[p], carry))
            carry = B.band(carry, a[p])
        exp_bits = exp + [ZERO] * (64 - nb)
        exp_ok = B.bnot(carry)   # false exactly when every bit was one
        for o in rets:
            s, w = pc_status(o.pc)
            if s == "unsat":
                continue
            r = o.value
            if not (isinstance(r, Agg) and r.key == OPTION and r.variant == 1):
                return REFUTED, "live iterator returns %r" % (r,)
            v, d = check_table_value(e, kind, it, o.state, r.fields[0], n, S.identity(n), o.pc)
            if v != PROVED:
                return v, "yielded item is not the current table: " + d
            itv = it.read_ptr(o.state, ip)
            v, d = check_table_value(e, kind, it, o.state, itv.fields[ti], n, exp_bits, o.pc)
            if v != PROVED:
                return v, "stepped table is not the numeric successor: " + d
            fl = itv.fields[oi]
            if not isinstance(fl, W):
                return UNDECIDED, "flag %r" % (fl,)
            v, d = compare_bits(fl.all_bits(), [exp_ok if live else B.bnot(exp_ok)], o.pc)
            if v != PROVED:
                return v, "flag is not 'did not wrap around': " + d
        return PROVED, ""
    # n >= 3: word-level terms, one path per word that stops the carry, plus the wrap-around path
    seen = set()
    for o in rets:
        r = o.value
        if not (isinstance(r, Agg) and r.key == OPTION and r.variant == 1):
            return REFUTED, "live iterator returns %r" % (r,)
        v, d = check_table_value(e, kind, it, o.state, r.fields[0], n, S.identity(n), ())
        if v != PROVED:
            return v, "yielded item is not the current table: " + d
        itv = it.read_ptr(o.state, ip)
        words = K.words(it, o.state, itv.fields[ti])
        if len(words) != T:
            return REFUTED, "stepped table has %d words" % len(words)
        fl = itv.fields[oi]
        if not (isinstance(fl, W) and fl.val is not None):
            return UNDECIDED, "flag not concrete on a path"
        conds = [nn(c.term) if getattr(c, "term", None) is not None else None for c in o.pc if not (isinstance(c, W) and c.val is not None)]
        if any(c is None for c in conds):
            return UNDECIDED, "path condition without word-level term"
        # which path is this?  k = number of wrapped words
        k = sum(1 for c in conds if c[0] == "eq")
        if fl.val == live:
            want_conds = [t_eq0(t_step(j, n)) for j in range(k)] + [("not", t_eq0(t_step(k, n)))]
            touched = k + 1
        else:
            want_conds = [t_eq0(t_step(j, n)) for j in range(T)]
            touched = T
            k = T
        if conds != want_conds:
            return REFUTED, "path %d of the successor step tests %s, expected %s" % (k, conds[-1:] , want_conds[-1:])
        for j, w in enumerate(words):
            want = t_step(j, n) if j < touched else ("in", "a", j)
            got = absint.tm(w) if isinstance(w, W) else None
            if got is None:
                return UNDECIDED, "word %d has no term" % j
            if got != want and not (j < k and got == ("c", 0)):
                # (a wrapped word is tested to be 0 on this path: storing the constant 0 is storing the step)
                return REFUTED, "on the path where %d word(s) wrap, word %d becomes %s, expected %s" % (k, j, got, want)
        seen.add((k, 1 if fl.val == live else 0))
    want_paths = {(k, 1) for k in range(T)} | {(T, 0)}
    if seen != want_paths:
        return REFUTED, "successor step has paths %s, expected one per carry position and the wrap-around" % sorted(seen)
    return PROVED, ""


def order_windows(chk, env):
    """C08.W: Ord::cmp of both types on tables whose blocks have a few symbolic bits (bits 0, 62, 63 of every block,
    0 elsewhere), in window mode: whatever way two blocks are compared (iterator comparison, explicit loops, subtraction
    tricks), the summary evaluated on every choice must be the order of the tables read as unsigned integers, most
    significant block first."""
    import itertools as _it
    from ..harness import Space
    for kind in ("dyn", "static"):
        K = env.kinds[kind]
        impls = {tr["path"]: b for b, sty, tr in env.facts.trait_impl_methods("std::cmp::") if sty.get("path") == K.adt}
        ob = impls.get("std::cmp::Ord")
        if ob is None:
            continue
        for n in (6, 7):
            T = table_words(n)
            pos = (0, 62, 63) if T == 1 else (0, 63)
            key = "<%s as Ord>::cmp n=%d, bits %s of each block symbolic" % (K.adt, n, list(pos))
            try:
                names = ["%s[%d]" % (nm, w_ * 64 + p_) for nm in "ab" for w_ in range(T) for p_ in pos]
                space = Space(names)
                it = env.interp(max_paths=8192)
                it.prune = True
                it.cmp_split = True
                it.split_all = True
                it.space = space
                st = State()

                def tab(nm):
                    return [W(64, bits=[B.atom("%s[%d]" % (nm, w_ * 64 + p_)) if p_ in pos else ZERO for p_ in range(64)]) for w_ in range(T)]
                pa = K.place(st, K.mk(st, n, tab("a")))
                pb_ = K.place(st, K.mk(st, n, tab("b")))
                with space:
                    outs = it.call_body(ob, [pa, pb_], st, K.env(n))
                owner = {}
                for idx_, o in enumerate(outs):
                    m_ = space.pc_mask(o.pc)
                    if m_ is None:
                        raise Undecided("path condition with top")
                    while m_:
                        low = m_ & -m_
                        owner.setdefault(low.bit_length() - 1, []).append(idx_)
                        m_ ^= low
                v, d = PROVED, ""
                for r_ in range(1 << len(names)):
                    en = [outs[x_] for x_ in owner.get(r_, [])]
                    vals = {nm: (r_ >> j) & 1 for j, nm in enumerate(names)}
                    ia = sum(vals["a[%d]" % (w_ * 64 + p_)] << (w_ * 64 + p_) for w_ in range(T) for p_ in pos)
                    ib = sum(vals["b[%d]" % (w_ * 64 + p_)] << (w_ * 64 + p_) for w_ in range(T) for p_ in pos)
                    if len(en) != 1:
                        v, d = UNDECIDED, "%d paths enabled" % len(en)
                        break
                    o = en[0]
                    if o.kind != "return":
                        v, d = REFUTED, "panics (%s) comparing %#x with %#x" % (o.info.get("msg"), ia, ib)
                        break
                    r = o.value
                    if not (isinstance(r, Agg) and r.key == "std::cmp::Ordering"):
                        raise Undecided("result %r" % (r,))
                    want = (ia > ib) - (ia < ib)
                    if r.variant - 1 != want:
                        v, d = REFUTED, "the tables %#x and %#x compare %s, as integers they are %s" % (ia, ib, ["Less", "Equal", "Greater"][r.variant], ["Less", "Equal", "Greater"][want + 1])
                        break
            except Undecided as e:
                v, d = UNDECIDED, e.cause
            chk.add("C08.W", key, v, d, where=where_of(ob))
