"""C13 - Ecube (XOR term) and Soes (OR of XOR terms) semantics.

Ecube: value is the parity of (vars & m) xor the xnor flag (xor-sum form of the bit domain, all 32
lanes at once); ^ and ! act field-wise; equality is field-wise on a canonical representation.
Soes (containers of symbolic length 0..3, element methods opaque): value is the OR over *all*
terms, | concatenates, conversion to Lut tabulates value for every assignment below 2^n,
is_zero/is_one can only hold for the respective constants.
Not decided: Ecube::all enumerates all 2^(n+1) terms (iterator adaptor chain).
"""
import itertools

from .. import facts as F
from .. import specs as S
from ..harness import *
from ..cubemodel import ECUBE, arg_for
from ..sopmodel import *

LEVEL = "other"


def ecube_fields(facts):
    adt = facts.adts.get(ECUBE)
    if adt is None:
        raise KeyError("anchor-missing: Ecube")
    fs = adt["variants"][0]["fields"]
    vi = [i for i, f in enumerate(fs) if f["ty"]["k"] == "uint"]
    xi = [i for i, f in enumerate(fs) if f["ty"]["k"] == "bool"]
    if len(fs) != 2 or len(vi) != 1 or len(xi) != 1:
        raise Undecided("Ecube changed shape")
    return vi[0], xi[0]


def sym_ecube(vi, xi, name):
    f = [None, None]
    f[vi] = watoms(32, name + ".V")
    f[xi] = W(1, bits=[B.atom(name + ".X")])
    return Agg("adt", ECUBE, 0, f)


def ecube_value_rule(chk, facts, vi, xi, ms, rule):
    """Ecube::value(m) = parity(vars & m) ^ xnor (shared by C13 and C16)"""
    b = ms.get("value")
    if b is None:
        chk.refuted(rule, "anchor-missing: Ecube::value", "")
    else:
        key = "Ecube::value is parity(vars & m) ^ xnor"
        try:
            it = Interp(facts)
            st = State()
            e = sym_ecube(vi, xi, "e")
            outs = it.call_body(b, [arg_for(b["sig"]["inputs"][0], e, st), watoms(64, "m")], st, {})
            o, v, d = single_return(outs)
            if o is not None:
                exp = B.atom("e.X")
                for i in range(32):
                    exp = B.bxor(exp, B.band(B.atom("e.V[%d]" % i), B.atom("m[%d]" % i)))
                r = o.value
                if isinstance(r, W) and r.width == 1 and r.val is None and r.bits[0] is not None:
                    if r.bits[0] == exp:
                        v, d = PROVED, ""
                    else:
                        dx = B.bxor(r.bits[0], exp)
                        w = B.sat_assignment(dx) if dx is not None else None
                        v, d = (REFUTED, "value is %s, specification %s; differ under %s" % (B.describe(r.bits[0]), B.describe(exp), {B.ATOMS.name(k): x for k, x in (w or {}).items() if x})) if w is not None else (UNDECIDED, "forms differ")
                else:
                    v, d = UNDECIDED, "result %r" % (r,)
        except Undecided as ex:
            v, d = UNDECIDED, ex.cause
        chk.add(rule, key, v, d, where=where_of(b), sample=dict(obligation=key, lanes=32, verdict=v))
        # variable windows (window mode): whatever way the parity is computed - popcount, nibble tricks, counts -
        # every bit is an exact function of the 2k+1 atoms; compared with the definition on all assignments
        from ..harness import Space
        for window in ((0, 1, 2, 3, 4), (0, 4, 8, 12, 31), (7, 8, 15, 16, 24), (3, 10, 17, 28, 29, 30, 31)):
            key = "Ecube::value on variables %s (all terms and assignments over them)" % (list(window),)
            try:
                it = Interp(facts)
                it.prune = True
                st = State()
                names = ["e.V[%d]" % i for i in window] + ["m[%d]" % i for i in window] + ["e.X"]
                space = Space(names)
                it.space = space
                f = [None, None]
                f[vi] = W(32, bits=[B.atom("e.V[%d]" % i) if i in window else ZERO for i in range(32)])
                f[xi] = W(1, bits=[B.atom("e.X")])
                e = Agg("adt", ECUBE, 0, f)
                m = W(64, bits=[B.atom("m[%d]" % i) if i in window else ZERO for i in range(64)])
                with space:
                    outs = it.call_body(b, [arg_for(b["sig"]["inputs"][0], e, st), m], st, {})
                v, d = PROVED, ""
                covered = 0
                want = space.var[B.ATOMS.get("e.X")]
                for i in window:
                    want ^= space.var[B.ATOMS.get("e.V[%d]" % i)] & space.var[B.ATOMS.get("m[%d]" % i)]
                for o in outs:
                    pm = space.pc_mask(o.pc)
                    if pm is None:
                        raise Undecided("path condition with top")
                    if not pm:
                        continue
                    if o.kind != "return":
                        v, d = REFUTED, "panics (%s)" % o.info.get("msg")
                        break
                    covered |= pm
                    got = space.mask(o.value)
                    if got is None:
                        raise Undecided("result not exact")
                    diff = (got ^ want) & pm
                    if diff:
                        r_ = (diff & -diff).bit_length() - 1
                        named = {a_: (r_ >> j) & 1 for j, a_ in enumerate(space.names)}
                        vs = [i for i in window if named["e.V[%d]" % i]]
                        ms_ = [i for i in window if named["m[%d]" % i]]
                        v, d = REFUTED, "the term over variables %s%s returns %d when the variables %s are true; the parity definition gives %d" % (
                            vs, " (xnor)" if named["e.X"] else "", (got >> r_) & 1, ms_, (want >> r_) & 1)
                        break
                if v == PROVED and covered != space.full:
                    v, d = UNDECIDED, "paths do not cover the window"
            except Undecided as ex:
                v, d = UNDECIDED, ex.cause
            chk.add(rule, key, v, d, where=where_of(b))


def run(chk):
    facts = F.load("dbg")
    chk.trust("rustc MIR construction; std summaries (count_ones as an adder tree whose low bit is the xor of all bits)")
    chk.assume("containers are analysed for lengths 0..3 of symbolic terms; the loops are length-generic code")
    vi, xi = ecube_fields(facts)
    ms = facts.inherent_methods(ECUBE)
    ecube_value_rule(chk, facts, vi, xi, ms, "C13.E")
    # ------------------------------------------------------------------ ^ and ! forms
    nforms = 0
    for bd, sty, tr in facts.trait_impl_methods("std::ops::"):
        base = sty["t"] if sty["k"] == "ref" else sty
        if base.get("path") != ECUBE or tr["path"] not in ("std::ops::BitXor", "std::ops::Not"):
            continue
        nforms += 1
        label = "<%s as %s>::%s" % (sty["s"], tr["s"], bd["name"])
        try:
            it = Interp(facts)
            st = State()
            args = [arg_for(bd["sig"]["inputs"][0], sym_ecube(vi, xi, "a"), st)]
            if tr["path"] == "std::ops::BitXor":
                args.append(arg_for(bd["sig"]["inputs"][1], sym_ecube(vi, xi, "b"), st))
            outs = it.call_body(bd, args, st, {})
            o, v, d = single_return(outs)
            if o is not None:
                r = o.value
                if tr["path"] == "std::ops::BitXor":
                    ev = [B.bxor(B.atom("a.V[%d]" % i), B.atom("b.V[%d]" % i)) for i in range(32)]
                    ex_ = [B.bxor(B.atom("a.X"), B.atom("b.X"))]
                else:
                    ev = [B.atom("a.V[%d]" % i) for i in range(32)]
                    ex_ = [B.bnot(B.atom("a.X"))]
                v, d = compare_bits(r.fields[vi].all_bits(), ev, o.pc)
                if v == PROVED:
                    v, d = compare_bits(r.fields[xi].all_bits(), ex_, o.pc)
        except Undecided as ex:
            v, d = UNDECIDED, ex.cause
        chk.add("C13.E", label, v, d, where=where_of(bd))
    chk.floor("C13.E operator forms", nforms, 6)
    # zero / one / is_zero / is_one / nth_var (concrete) and equality
    try:
        it = Interp(facts)
        z = returns(it.call_body(ms["zero"], [], State(), {}))[0].value
        o1 = returns(it.call_body(ms["one"], [], State(), {}))[0].value
        ok = z.fields[vi].val == 0 and z.fields[xi].val == 0 and o1.fields[vi].val == 0 and o1.fields[xi].val == 1
        chk.add("C13.E", "Ecube::zero / Ecube::one are the constants", PROVED if ok else REFUTED, "")
        for mname, xn in (("nth_var", 0), ("nth_var_inv", 1)):
            bad = None
            for var in range(32):
                r = returns(it.call_body(ms[mname], [wconst(64, var)], State(), {}))[0].value
                if r.fields[vi].val != 1 << var or r.fields[xi].val != xn:
                    bad = var
                    break
            chk.add("C13.E", "Ecube::%s" % mname, PROVED if bad is None else REFUTED, "" if bad is None else "wrong term for variable %d" % bad)
        for mname, want in (("is_zero", lambda V, X: V == 0 and X == 0), ("is_one", lambda V, X: V == 0 and X == 1)):
            bb = ms[mname]
            st = State()
            e = sym_ecube(vi, xi, "e")
            outs = it.call_body(bb, [arg_for(bb["sig"]["inputs"][0], e, st)], st, {})
            # decide on lane-value sets x flag
            from ..lanes import cond_allowed, holds, universe
            U = universe(["e.V"])
            okk, dd = PROVED, ""
            for X in (0, 1):
                g = {B.ATOMS.get("e.X"): X}
                rows = []
                for o in outs:
                    conds = [cond_allowed(c, ["e.V"], 32, U, g) for c in o.pc]
                    val = cond_allowed(o.value, ["e.V"], 32, U, g)
                    if any(c is None for c in conds) or val is None:
                        okk, dd = UNDECIDED, "not a lane predicate"
                        break
                    rows.append((conds, val))
                if okk != PROVED:
                    break
                for Sv in ([(0,)], [(1,)], [(0,), (1,)]):
                    got = [holds(val, Sv) for conds, val in rows if all(holds(c, Sv) for c in conds)]
                    Vzero = all(u[0] == 0 for u in Sv)
                    if len(got) != 1 or got[0] != want(0 if Vzero else 1, X):
                        okk, dd = REFUTED, "%s on a term with vars %s zero and xnor=%d returns %s" % (mname, "all" if Vzero else "not all", X, got)
            chk.add("C13.E", "Ecube::%s" % mname, okk, dd, where=where_of(bb))
    except (Undecided, KeyError, IndexError) as ex:
        chk.undecided("C13.E", "Ecube constants", str(ex))
    eqs = [bd for bd, sty, tr in facts.trait_impl_methods("std::cmp::PartialEq") if sty.get("path") == ECUBE]
    # equality is semantic equality: the == body on two symbolic terms is true exactly when every representation bit
    # agrees (the representation is canonical: distinct (vars, xnor) denote distinct functions)
    if not eqs:
        chk.refuted("C13.E", "anchor-missing: PartialEq for Ecube", "")
    else:
        try:
            it = Interp(facts)
            st = State()
            ea, eb = sym_ecube(vi, xi, "p"), sym_ecube(vi, xi, "q")
            outs = it.call_body(eqs[0], [arg_for(eqs[0]["sig"]["inputs"][0], ea, st), arg_for(eqs[0]["sig"]["inputs"][1], eb, st)], st, {})
            def clauses_of(c):
                """a condition 'all these functions are 0' -> set of functions, else None"""
                if isinstance(c, CS) and not c.neg and not c.has_top():
                    return set(c.clauses)
                if isinstance(c, W) and c.val is None and c.bits[0] is not None:
                    b_ = c.bits[0]
                    if b_[1] == "nos":
                        return set(b_[2])
                    return {B.bnot(b_)}
                if isinstance(c, W) and c.val is not None and c.val:
                    return set()
                return None
            v, d = UNDECIDED, "equality summary not recognised"
            rets = [o for o in outs if o.kind == "return"]
            pos = [o for o in rets if not (isinstance(o.value, W) and o.value.val == 0)]
            if len(rets) == len(outs) and len(pos) == 1:
                o = pos[0]
                want = {}
                for k_, (x_, y_) in enumerate(zip(ea.fields[vi].all_bits(), eb.fields[vi].all_bits())):
                    want[B.bxor(x_, y_)] = "variable %d" % k_
                want[B.bxor(ea.fields[xi].all_bits()[0], eb.fields[xi].all_bits()[0])] = "the polarity"
                parts = [clauses_of(c) for c in o.pc] + [clauses_of(o.value)]
                cl = None if any(p_ is None for p_ in parts) else set().union(*parts)
                if cl is None:
                    v, d = UNDECIDED, "equality summary %r" % (o.value,)
                elif cl == set(want):
                    v, d = PROVED, ""
                elif cl < set(want):
                    miss = sorted(want[c] for c in set(want) - cl)
                    v, d = REFUTED, "two terms that differ only in %s compare equal although they denote different functions" % miss[0]
                else:
                    v, d = UNDECIDED, "equality compares something else than the representation bits"
        except Undecided as ex:
            v, d = UNDECIDED, ex.cause
        chk.add("C13.E", "Ecube == is equality of (vars, xnor), bit for bit", v, d, where=where_of(eqs[0]))
    ecube_small(chk, facts, vi, xi)
    # ------------------------------------------------------------------ Soes
    Cs = reduction_rules(chk, facts, SOES, "or", "C13.S", "std::ops::BitOr")
    # real XOR terms over a two-variable window: | denotes the OR of the operands (analysis/window.py)
    from ..window import window_op, op_forms, pick_forms, to_lut_rules
    to_lut_rules(chk, "C13.T", facts, Cs, "or", chk.tier)
    for bd, label in pick_forms(op_forms(facts, "std::ops::BitOr", SOES), chk.tier):
        for lens in ((1, 1), (2, 1), (1, 2), (0, 2), (2, 2)):
            window_op(chk, "C13.R", facts, Cs, bd, label, lens, "or", "or", WN=2, sample=(lens == (2, 1)))


def container_value_rule(chk, facts, C, op, rule, lens=(0, 1, 2, 3)):
    """value(m) of a Sop / Soes / Esop is the OR / XOR of the values of all its terms (shared with C16)"""
    red = {"or": B.bor, "xor": B.bxor}[op]
    short = C.adt.split("::")[-1]
    # value(mask)
    b = C.method("value")
    for names in [["c%d" % j for j in range(L)] for L in lens] + [["c0", "c0"], ["c0", "c1", "c0"], ["c0", "c0", "c0"]]:
        L = len(names)
        key = "%s::value over terms %s" % (short, names) if len(set(names)) != L else "%s::value over %d terms" % (short, L)
        try:
            it = Interp(facts)
            install_stubs(it, facts, C.elem)
            st = State()
            v0 = C.mk(st, 4, names)
            outs = it.call_body(b, [arg_for(b["sig"]["inputs"][0], v0, st), watoms(64, "m")], st, {})
            exp = ZERO
            for nm in names:
                exp = red(exp, val_atom(nm, "m"))
            rets = returns(outs)
            if panics(outs) or not rets:
                o, v, d = single_return(outs)
            else:
                # one or several paths (a counting / filtering formulation forks per term): each under its condition
                v, d = PROVED, ""
                for o in rets:
                    if pc_status(o.pc)[0] == "unsat":
                        continue
                    r = o.value
                    if isinstance(r, W) and r.width == 1:
                        v1, d1 = compare_bits(r.all_bits(), [exp], o.pc)
                        d1 = d1 and "value is not the %s of all term values: %s" % (op.upper(), d1)
                    else:
                        v1, d1 = UNDECIDED, "result %r" % (r,)
                    if v1 != PROVED:
                        v, d = v1, d1
                        if v1 == REFUTED:
                            break
        except Undecided as ex:
            v, d = UNDECIDED, ex.cause
        chk.add(rule, key, v, d, where=where_of(b), sample=dict(obligation=key, verdict=v) if L == 2 else None)


def container_many_rule(chk, facts, C, op, rule, lengths=(255, 256, 257, 1024)):
    """value(m) with many terms that are all true on m (or all false): the reduction must neither panic (a counter
    narrower than the number of terms overflows in builds with overflow checks) nor lose the parity / disjunction"""
    short = C.adt.split("::")[-1]
    b = C.method("value")
    ms = facts.inherent_methods(C.elem)
    for L in lengths:
        for const in (1, 0):
            key = "%s::value over %d terms that are all %d" % (short, L, const)
            try:
                it = Interp(facts, max_steps=400000)
                if "value" not in ms:
                    raise Undecided("term type has no value()")
                it.opaque_fns[ms["value"]["key"]] = lambda interp, fr, args, st, pc, t, c_=const: [Outcome("return", st, pc, wbool(c_))]
                st = State()
                v0 = C.mk(st, 4, ["c%d" % j for j in range(L)])
                outs = it.call_body(b, [arg_for(b["sig"]["inputs"][0], v0, st), wconst(64, 0)], st, {})
                o, v, d = single_return(outs)
                if o is not None:
                    want = (const and (L & 1 if op == "xor" else 1)) or 0
                    r = o.value
                    if isinstance(r, W) and r.val is not None:
                        v, d = (PROVED, "") if r.val == want else (REFUTED, "returns %d, the %s of %d terms equal to %d is %d" % (r.val, op.upper(), L, const, want))
                    else:
                        v, d = UNDECIDED, "result %r" % (r,)
                elif v == REFUTED:
                    d = "with %d terms all true on the assignment: %s" % (L, d)
            except Undecided as ex:
                v, d = UNDECIDED, ex.cause
            chk.add(rule, key, v, d, where=where_of(b))


def reduction_rules(chk, facts, adt, op, rule, combine_trait, lens=(0, 1, 2, 3)):
    """shared by Soes (OR), Sop (OR) and Esop (XOR): value reduction, concatenating operator,
    tabulation into a Lut, is_zero/is_one soundness"""
    C = Container(facts, adt)
    env = Env(facts)
    KD = env.kinds["dyn"]
    red = {"or": B.bor, "xor": B.bxor}[op]
    short = adt.split("::")[-1]
    chk.add(rule, "%s fields are private" % short, PROVED if C.private else REFUTED, "")
    container_value_rule(chk, facts, C, op, rule, lens)
    container_many_rule(chk, facts, C, op, rule)
    from ..window import window_value
    for L in (1, 2, 3):
        window_value(chk, rule, facts, C, L, op)
    # combining operator: concatenation (simplification handled by the caller for Sop)
    forms = [(bd, "<%s as %s>::%s" % (sty["s"], tr["s"], bd["name"])) for bd, sty, tr in facts.trait_impl_methods(combine_trait) if (sty["t"] if sty["k"] == "ref" else sty).get("path") == adt]
    chk.floor(rule + " operator forms", len(forms), 4)
    cases = [(["a%d" % j for j in range(La)], ["b%d" % j for j in range(Lb)]) for La, Lb in ((0, 0), (1, 0), (0, 2), (2, 1), (2, 2))]
    cases += [(["s", "s", "a1"], ["s"]), (["s", "a0"], ["b0", "s"]), (["s"], ["s"])]
    for bd, label in forms:
        for na, nb_ in cases:
            shared = bool(set(na) & set(nb_)) or len(set(na)) != len(na)
            key = "%s with %d+%d terms" % (label, len(na), len(nb_)) if not shared else "%s with terms %s and %s" % (label, na, nb_)
            try:
                it = Interp(facts, max_paths=4096)
                install_stubs(it, facts, C.elem)
                stub_simplify(it, facts, C)
                st = State()
                A, Bv = C.mk(st, 4, na), C.mk(st, 4, nb_)
                outs = it.call_body(bd, [arg_for(bd["sig"]["inputs"][0], A, st), arg_for(bd["sig"]["inputs"][1], Bv, st)], st, {})
                v, d = PROVED, ""
                nret = 0
                for o in outs:
                    s_, w_ = pc_status(o.pc)
                    if s_ == "unsat":
                        continue
                    if o.kind != "return":
                        v, d = UNDECIDED, "possible panic %s" % o.info.get("msg")
                        break
                    nret += 1
                    got = [elem_name(c) for c in C.cubes(it, o.state, o.value)]
                    nv = C.num_vars(o.value)
                    if nv.val != 4:
                        v, d = REFUTED, "result has num_vars %s" % nv.val
                        break
                    if any(g is None or g not in na + nb_ for g in got):
                        v, d = UNDECIDED, "result contains terms that are not operand terms: %s" % got
                        break
                    # under this path's equalities (eq atoms) the result must denote a op b
                    den = lambda names: __import__("functools").reduce(red, [val_atom(nm, "m") for nm in names], ZERO)
                    if den(got) != red(den(na), den(nb_)):
                        v, d = REFUTED, "the result terms %s denote %s, but the operands %s and %s denote %s" % (got, B.describe(den(got)), na, nb_, B.describe(red(den(na), den(nb_))))
                        break
                if v == PROVED and nret == 0:
                    v, d = UNDECIDED, "no returning path"
            except Undecided as ex:
                v, d = UNDECIDED, ex.cause
            chk.add(rule, key, v, d, where=where_of(bd))
    # From<&X> for Lut and From<X> for Lut
    for bd, sty, tr in facts.trait_impl_methods("std::convert::From"):
        if sty.get("path") != "lut::Lut" or len(tr["args"]) < 2:
            continue
        src = tr["args"][1]
        base = src["t"] if src["k"] == "ref" else src
        if base.get("path") != adt:
            continue
        label = "<Lut as %s>::from" % tr["s"]
        for n in (0, 1, 2, 3):
            for L in (0, 1, 2):
                key = "%s n=%d %d terms" % (label, n, L)
                try:
                    it = Interp(facts, max_steps=200000)   # a few thousand steps when the terms stay opaque
                    install_stubs(it, facts, C.elem)
                    st = State()
                    names = ["c%d" % j for j in range(L)]
                    v0 = C.mk(st, n, names)
                    outs = it.call_body(bd, [arg_for(bd["sig"]["inputs"][0], v0, st)], st, {})
                    o, v, d = single_return(outs)
                    if o is not None:
                        exp = []
                        for p in range(64):
                            if p < (1 << n):
                                e = ZERO
                                for nm in names:
                                    e = red(e, val_atom(nm, p))
                                exp.append(e)
                            else:
                                exp.append(ZERO)
                        v, d = check_table_value(env, "dyn", it, o.state, o.value, n, exp, o.pc)
                        d = d and "table is not the tabulation of value(): " + d
                except Undecided as ex:
                    v, d = UNDECIDED, ex.cause
                chk.add(rule, key, v, d, where=where_of(bd))
    # is_zero / is_one soundness (semantic): whenever the predicate can be true, the denoted function
    # - with value(c)=1 for terms assumed is_one and value(c)=0 for terms assumed is_zero - is that constant
    import itertools as _it
    for names in [[], ["c0"], ["c0", "c1"], ["c0", "c1", "c2"], ["c0", "c0"]]:
        L = len(names)
        for mname in ("is_zero", "is_one"):
            b = C.method(mname)
            key = "%s::%s with terms %s" % (short, mname, names)
            try:
                it = Interp(facts, max_paths=256)
                install_stubs(it, facts, C.elem)
                st = State()
                v0 = C.mk(st, 4, names)
                outs = it.call_body(b, [arg_for(b["sig"]["inputs"][0], v0, st)], st, {})
                v, d = PROVED, ""
                uniq = sorted(set(names))
                pred = "is_one" if mname == "is_one" else "is_zero"
                for o in outs:
                    s_, w_ = pc_status(o.pc)
                    if s_ == "unsat":
                        continue
                    if o.kind != "return":
                        v, d = UNDECIDED, "possible panic"
                        break
                    r = o.value
                    if not isinstance(r, W) or r.width != 1 or (r.val is None and r.bits[0] is None):
                        v, d = UNDECIDED, "result %r" % (r,)
                        break
                    for vals in _it.product((0, 1), repeat=len(uniq)):
                        asg = {B.ATOMS.get("%s(%s)" % (pred, nm)): x for nm, x in zip(uniq, vals)}
                        full = dict(asg)
                        conds_ok = True
                        for c in o.pc:
                            if isinstance(c, W) and c.val is None and c.bits[0] is not None:
                                if not set(c.bits[0][0]) <= set(full):
                                    conds_ok = None
                                    break
                                if not B.eval_bit(c.bits[0], full):
                                    conds_ok = False
                                    break
                        if conds_ok is None:
                            v, d = UNDECIDED, "path condition over other atoms"
                            break
                        if not conds_ok:
                            continue
                        rv = r.val if r.val is not None else (B.eval_bit(r.bits[0], full) if set(r.bits[0][0]) <= set(full) else None)
                        if rv is None:
                            v, d = UNDECIDED, "result depends on other atoms"
                            break
                        if not rv:
                            continue
                        known = {nm for nm, x in zip(uniq, vals) if x}
                        f = ZERO
                        for nm in names:
                            f = red(f, (ONE if mname == "is_one" else ZERO) if nm in known else val_atom(nm, "m"))
                        want = ONE if mname == "is_one" else ZERO
                        if f != want:
                            v, d = REFUTED, "%s holds for terms %s when %s are constant %s, but the form then denotes %s" % (mname, names, sorted(known) or "none", "one" if mname == "is_one" else "zero", B.describe(f))
                            break
                    if v != PROVED:
                        break
            except Undecided as ex:
                v, d = UNDECIDED, ex.cause
            chk.add(rule, key, v, d, where=where_of(b))
    constant_predicates_real(chk, facts, C, op, rule)
    return C


def constant_predicates_real(chk, facts, C, op, rule):
    """is_zero / is_one with the *real* element semantics on a window of two variables: whenever the
    predicate holds, value() is that constant on all four assignments (all element bit patterns enumerated
    on the abstract summaries; canonical cubes only)"""
    import itertools as _it
    from ..absint import new_cell
    short = C.adt.split("::")[-1]
    adt = facts.adts[C.elem]
    fts = [f["ty"] for f in adt["variants"][0]["fields"]]
    is_cube = all(t_["k"] == "uint" for t_ in fts)
    for L in (1, 2):
        try:
            elems, atoms = [], []
            for j in range(L):
                fs = []
                for k, t_ in enumerate(fts):
                    if t_["k"] == "bool":
                        nm = "e%d.f%d" % (j, k)
                        fs.append(W(1, bits=[B.atom(nm)]))
                        atoms.append(nm)
                    else:
                        bits = []
                        for i_ in range(t_["w"]):
                            if i_ < 2:
                                nm = "e%d.f%d[%d]" % (j, k, i_)
                                bits.append(B.atom(nm))
                                atoms.append(nm)
                            else:
                                bits.append(ZERO)
                        fs.append(W(t_["w"], bits=bits))
                elems.append(Agg("adt", C.elem, 0, fs))

            def run(mname, extra):
                it = Interp(facts, max_paths=1024)
                it.prune = True
                st = State()
                cell = new_cell()
                st.mem[cell] = Arr(elems)
                f = [None, None]
                f[C.nv] = wconst(64, 2)
                f[C.cv] = Ptr(cell, (), (0, L), "vec")
                b = C.method(mname)
                return it.call_body(b, [arg_for(b["sig"]["inputs"][0], Agg("adt", C.adt, 0, f), st)] + extra, st, {})
            preds = {m: run(m, []) for m in ("is_zero", "is_one")}
            vals = [run("value", [wconst(64, m)]) for m in range(4)]
            ids = [B.ATOMS.get(a) for a in atoms]
            verdict = {"is_zero": (PROVED, ""), "is_one": (PROVED, "")}
            for bitsv in _it.product((0, 1), repeat=len(ids)):
                asg = dict(zip(ids, bitsv))
                named = dict(zip(atoms, bitsv))
                if is_cube and any(named.get("e%d.f0[%d]" % (j, i_)) and named.get("e%d.f1[%d]" % (j, i_)) for j in range(L) for i_ in range(2)):
                    continue   # contradictory lanes: not a canonical cube
                vs = [eval_outs(v_, asg) for v_ in vals]
                for m, want in (("is_zero", 0), ("is_one", 1)):
                    if verdict[m][0] != PROVED:
                        continue
                    r = eval_outs(preds[m], asg)
                    if r is None or any(x is None for x in vs):
                        verdict[m] = (UNDECIDED, "summary not evaluable")
                        continue
                    if r[0] == "value" and r[1]:
                        bad = [k for k, x in enumerate(vs) if x[0] != "value" or x[1] != want]
                        if bad:
                            verdict[m] = (REFUTED, "%s holds for the %s with element bits %s although value(%d) is %s" % (m, short, {k: v for k, v in named.items() if v}, bad[0], vs[bad[0]][1]))
            for m in ("is_zero", "is_one"):
                chk.add(rule, "%s::%s sound with %d real element(s)" % (short, m, L), verdict[m][0], verdict[m][1], where=where_of(C.method(m)))
        except Undecided as ex:
            chk.undecided(rule, "%s constant predicates with %d real element(s)" % (short, L), ex.cause)


def stub_simplify(it, facts, C):
    """Sop::simplify (any private &mut self method of the container without other arguments) is kept
    as an identity that records it ran; its own semantics is rule C14.S"""
    for name, b in C.methods.items():
        ins = b["sig"]["inputs"]
        if b["vis"] != "pub" and len(ins) == 1 and ins[0]["k"] == "ref" and ins[0]["mut"] and b["sig"]["output"]["s"] == "()":
            def f(interp, fr, args, st, pc, t, name=name):
                interp.simplified = getattr(interp, "simplified", []) + [args[0]]
                return [Outcome("return", st, pc, Agg("tuple", None, 0, ()))]
            it.opaque_fns[b["key"]] = f


def ecube_small(chk, facts, vi, xi):
    """small-domain rules for Ecube: counts, variable list, from_vars, implicants, enumeration"""
    from ..stdmodel import drain
    from ..absint import Frame, new_cell
    ms = facts.inherent_methods(ECUBE)
    env = Env(facts)
    KD = env.kinds["dyn"]

    def win(window, name="e"):
        f = [None, None]
        f[vi] = W(32, bits=[B.atom("%s.V[%d]" % (name, i)) if i in window else ZERO for i in range(32)])
        f[xi] = W(1, bits=[B.atom("%s.X" % name)])
        return Agg("adt", ECUBE, 0, f)
    for window in ((0, 1, 2), (0, 16, 31)):
        atoms = ["e.V[%d]" % i for i in window] + ["e.X"]
        for mname, spec in (("num_lits", lambda d, w=window: sum(d["e.V[%d]" % i] for i in w)), ("num_gates", lambda d, w=window: max(sum(d["e.V[%d]" % i] for i in w), 1) - 1)):
            b = ms.get(mname)
            if b is None:
                chk.refuted("C13.N", "anchor-missing: Ecube::%s" % mname, "")
                continue
            key = "Ecube::%s over variables %s" % (mname, list(window))
            try:
                it = Interp(facts)
                st = State()
                outs = it.call_body(b, [arg_for(b["sig"]["inputs"][0], win(window), st)], st, {})
                v, d = decide_by_enumeration(outs, atoms, spec)
            except Undecided as e:
                v, d = UNDECIDED, e.cause
            chk.add("C13.N", key, v, d, where=where_of(b))
    b = ms.get("vars")
    if b is not None:
        window = (0, 5, 31)
        key = "Ecube::vars over variables %s" % (list(window),)
        try:
            it = Interp(facts, max_paths=4096)
            it.prune = True
            st = State()
            cell = new_cell()
            st.mem[cell] = win(window)
            outs = it.call_body(b, [Ptr(cell, ())], st, {})
            o, v, d = single_return(outs)
            if o is not None:
                fr = Frame(b, b["mir"], {}, 0)
                v, d = PROVED, ""
                n_paths = 0
                for s1, p1, items in drain(it, fr, o.state, o.pc, o.value):
                    s_, w_ = pc_status(p1)
                    if s_ == "unsat":
                        continue
                    if s_ != "sat" or any(("e.V[%d]" % i) not in w_ for i in window):
                        v, d = UNDECIDED, "path not decided"
                        break
                    n_paths += 1
                    got = [x.val if isinstance(x, W) else None for x in items]
                    want = [i for i in window if w_["e.V[%d]" % i]]
                    if got != want:
                        v, d = REFUTED, "vars() yields %s for the variable set %s" % (got, want)
                        break
                if v == PROVED and n_paths != 8:
                    v, d = UNDECIDED, "%d paths" % n_paths
        except Undecided as e:
            v, d = UNDECIDED, e.cause
        chk.add("C13.N", key, v, d, where=where_of(b))
    b = ms.get("from_vars")
    if b is not None:
        for k in (0, 1, 2, 3):
            key = "Ecube::from_vars with %d symbolic variables" % k
            try:
                it = Interp(facts, max_paths=256)
                st = State()
                cell = new_cell()
                st.mem[cell] = Arr([W(64, bits=[B.atom("p%d[0]" % j), B.atom("p%d[1]" % j)] + [ZERO] * 62) for j in range(k)])
                outs = it.call_body(b, [Ptr(cell, (), (0, k)), W(1, bits=[B.atom("x")])], st, {})
                atoms = ["p%d[%d]" % (j, bb) for j in range(k) for bb in (0, 1)] + ["x"]

                def spec(dd):
                    V = 0
                    for j in range(k):
                        V |= 1 << (dd["p%d[0]" % j] + 2 * dd["p%d[1]" % j])
                    return (V, dd["x"])
                v, d = decide_by_enumeration(outs, atoms, spec, project=lambda g: (g[2][vi], g[2][xi]))
            except Undecided as e:
                v, d = UNDECIDED, e.cause
            chk.add("C13.N", key, v, d, where=where_of(b))
    b = ms.get("implies_lut")
    if b is not None:
        for n in (0, 1, 2):
            window = tuple(range(n))
            key = "Ecube::implies_lut n=%d" % n
            try:
                it = Interp(facts, max_paths=4096)
                it.prune = True
                st = State()
                lut = KD.place(st, KD.mk(st, n, sym_words(n, "a")))
                outs = it.call_body(b, [arg_for(b["sig"]["inputs"][0], win(window), st), lut], st, {})
                atoms = ["e.V[%d]" % i for i in window] + ["e.X"] + ["a[%d]" % p for p in range(1 << n)]

                def spec(dd):
                    for m in range(1 << n):
                        par = dd["e.X"]
                        for i in window:
                            par ^= dd["e.V[%d]" % i] & ((m >> i) & 1)
                        if par and not dd["a[%d]" % m]:
                            return 0
                    return 1
                v, d = decide_by_enumeration(outs, atoms, spec)
            except Undecided as e:
                v, d = UNDECIDED, e.cause
            chk.add("C13.N", key, v, d, where=where_of(b))
    b = ms.get("all")
    if b is not None:
        for n in (0, 1, 2, 3):
            key = "Ecube::all(%d)" % n
            try:
                it = Interp(facts, max_paths=64)
                st = State()
                outs = it.call_body(b, [wconst(64, n)], st, {})
                o, v, d = single_return(outs)
                if o is not None:
                    fr = Frame(b, b["mir"], {}, 0)
                    paths = drain(it, fr, o.state, o.pc, o.value)
                    if len(paths) != 1:
                        v, d = UNDECIDED, "%d paths" % len(paths)
                    else:
                        got = [(c.fields[vi].val, c.fields[xi].val) for c in paths[0][2]]
                        want = sorted((v_, x_) for v_ in range(1 << n) for x_ in (0, 1))
                        if sorted(got) == want:
                            v, d = PROVED, ""
                        else:
                            v, d = REFUTED, "Ecube::all(%d) yields %d terms (%d distinct), expected the %d terms" % (n, len(got), len(set(got)), 2 ** (n + 1))
            except Undecided as e:
                v, d = UNDECIDED, e.cause
            chk.add("C13.A", key, v, d, where=where_of(b))
