"""C13 - Ecube (XOR term) and Soes (OR of XOR terms) semantics.

Ecube: value is the parity of (vars & m) xor the xnor flag (xor-sum form of the bit domain, all 32
lanes at once); ^ and ! act field-wise; equality is field-wise on a canonical representation.
Soes (containers of symbolic length 0..3, element methods opaque): value is the OR over *all*
terms, | concatenates, conversion to Lut tabulates value for every assignment below 2^n,
is_zero/is_one can only hold for the respective constants.
Not decided: Ecube::all enumerates all 2^(n+1) terms (iterator adaptor chain).
"""
import itertools

from .. import facts as F
from .. import specs as S
from ..harness import *
from ..cubemodel import ECUBE, arg_for
from ..sopmodel import *

LEVEL = "other"


def ecube_fields(facts):
    adt = facts.adts.get(ECUBE)
    if adt is None:
        raise KeyError("anchor-missing: Ecube")
    fs = adt["variants"][0]["fields"]
    vi = [i for i, f in enumerate(fs) if f["ty"]["k"] == "uint"]
    xi = [i for i, f in enumerate(fs) if f["ty"]["k"] == "bool"]
    if len(fs) != 2 or len(vi) != 1 or len(xi) != 1:
        raise Undecided("Ecube changed shape")
    return vi[0], xi[0]


def sym_ecube(vi, xi, name):
    f = [None, None]
    f[vi] = watoms(32, name + ".V")
    f[xi] = W(1, bits=[B.atom(name + ".X")])
    return Agg("adt", ECUBE, 0, f)


def run(chk):
    facts = F.load("dbg")
    chk.trust("rustc MIR construction; std summaries (count_ones as an adder tree whose low bit is the xor of all bits)")
    chk.assume("containers are analysed for lengths 0..3 of symbolic terms; the loops are length-generic code")
    vi, xi = ecube_fields(facts)
    ms = facts.inherent_methods(ECUBE)
    # ------------------------------------------------------------------ Ecube::value
    b = ms.get("value")
    if b is None:
        chk.refuted("C13.E", "anchor-missing: Ecube::value", "")
    else:
        key = "Ecube::value is parity(vars & m) ^ xnor"
        try:
            it = Interp(facts)
            st = State()
            e = sym_ecube(vi, xi, "e")
            outs = it.call_body(b, [arg_for(b["sig"]["inputs"][0], e, st), watoms(64, "m")], st, {})
            o, v, d = single_return(outs)
            if o is not None:
                exp = B.atom("e.X")
                for i in range(32):
                    exp = B.bxor(exp, B.band(B.atom("e.V[%d]" % i), B.atom("m[%d]" % i)))
                r = o.value
                if isinstance(r, W) and r.width == 1 and r.val is None and r.bits[0] is not None:
                    if r.bits[0] == exp:
                        v, d = PROVED, ""
                    else:
                        dx = B.bxor(r.bits[0], exp)
                        w = B.sat_assignment(dx) if dx is not None else None
                        v, d = (REFUTED, "value is %s, specification %s; differ under %s" % (B.describe(r.bits[0]), B.describe(exp), {B.ATOMS.name(k): x for k, x in (w or {}).items() if x})) if w is not None else (UNDECIDED, "forms differ")
                else:
                    v, d = UNDECIDED, "result %r" % (r,)
        except Undecided as ex:
            v, d = UNDECIDED, ex.cause
        chk.add("C13.E", key, v, d, where=where_of(b), sample=dict(obligation=key, lanes=32, verdict=v))
    # ------------------------------------------------------------------ ^ and ! forms
    nforms = 0
    for bd, sty, tr in facts.trait_impl_methods("std::ops::"):
        base = sty["t"] if sty["k"] == "ref" else sty
        if base.get("path") != ECUBE or tr["path"] not in ("std::ops::BitXor", "std::ops::Not"):
            continue
        nforms += 1
        label = "<%s as %s>::%s" % (sty["s"], tr["s"], bd["name"])
        try:
            it = Interp(facts)
            st = State()
            args = [arg_for(bd["sig"]["inputs"][0], sym_ecube(vi, xi, "a"), st)]
            if tr["path"] == "std::ops::BitXor":
                args.append(arg_for(bd["sig"]["inputs"][1], sym_ecube(vi, xi, "b"), st))
            outs = it.call_body(bd, args, st, {})
            o, v, d = single_return(outs)
            if o is not None:
                r = o.value
                if tr["path"] == "std::ops::BitXor":
                    ev = [B.bxor(B.atom("a.V[%d]" % i), B.atom("b.V[%d]" % i)) for i in range(32)]
                    ex_ = [B.bxor(B.atom("a.X"), B.atom("b.X"))]
                else:
                    ev = [B.atom("a.V[%d]" % i) for i in range(32)]
                    ex_ = [B.bnot(B.atom("a.X"))]
                v, d = compare_bits(r.fields[vi].all_bits(), ev, o.pc)
                if v == PROVED:
                    v, d = compare_bits(r.fields[xi].all_bits(), ex_, o.pc)
        except Undecided as ex:
            v, d = UNDECIDED, ex.cause
        chk.add("C13.E", label, v, d, where=where_of(bd))
    chk.floor("C13.E operator forms", nforms, 6)
    # zero / one / is_zero / is_one / nth_var (concrete) and equality
    try:
        it = Interp(facts)
        z = returns(it.call_body(ms["zero"], [], State(), {}))[0].value
        o1 = returns(it.call_body(ms["one"], [], State(), {}))[0].value
        ok = z.fields[vi].val == 0 and z.fields[xi].val == 0 and o1.fields[vi].val == 0 and o1.fields[xi].val == 1
        chk.add("C13.E", "Ecube::zero / Ecube::one are the constants", PROVED if ok else REFUTED, "")
        for mname, xn in (("nth_var", 0), ("nth_var_inv", 1)):
            bad = None
            for var in range(32):
                r = returns(it.call_body(ms[mname], [wconst(64, var)], State(), {}))[0].value
                if r.fields[vi].val != 1 << var or r.fields[xi].val != xn:
                    bad = var
                    break
            chk.add("C13.E", "Ecube::%s" % mname, PROVED if bad is None else REFUTED, "" if bad is None else "wrong term for variable %d" % bad)
        for mname, want in (("is_zero", lambda V, X: V == 0 and X == 0), ("is_one", lambda V, X: V == 0 and X == 1)):
            bb = ms[mname]
            st = State()
            e = sym_ecube(vi, xi, "e")
            outs = it.call_body(bb, [arg_for(bb["sig"]["inputs"][0], e, st)], st, {})
            # decide on lane-value sets x flag
            from ..lanes import cond_allowed, holds, universe
            U = universe(["e.V"])
            okk, dd = PROVED, ""
            for X in (0, 1):
                g = {B.ATOMS.get("e.X"): X}
                rows = []
                for o in outs:
                    conds = [cond_allowed(c, ["e.V"], 32, U, g) for c in o.pc]
                    val = cond_allowed(o.value, ["e.V"], 32, U, g)
                    if any(c is None for c in conds) or val is None:
                        okk, dd = UNDECIDED, "not a lane predicate"
                        break
                    rows.append((conds, val))
                if okk != PROVED:
                    break
                for Sv in ([(0,)], [(1,)], [(0,), (1,)]):
                    got = [holds(val, Sv) for conds, val in rows if all(holds(c, Sv) for c in conds)]
                    Vzero = all(u[0] == 0 for u in Sv)
                    if len(got) != 1 or got[0] != want(0 if Vzero else 1, X):
                        okk, dd = REFUTED, "%s on a term with vars %s zero and xnor=%d returns %s" % (mname, "all" if Vzero else "not all", X, got)
            chk.add("C13.E", "Ecube::%s" % mname, okk, dd, where=where_of(bb))
    except (Undecided, KeyError, IndexError) as ex:
        chk.undecided("C13.E", "Ecube constants", str(ex))
    eqs = [bd for bd, sty, tr in facts.trait_impl_methods("std::cmp::PartialEq") if sty.get("path") == ECUBE]
    chk.add("C13.E", "Ecube equality is derived over (vars, xnor)", PROVED if eqs and eqs[0]["impl"]["derived"] else UNDECIDED, "")
    # ------------------------------------------------------------------ Soes
    reduction_rules(chk, facts, SOES, "or", "C13.S", "std::ops::BitOr")


def reduction_rules(chk, facts, adt, op, rule, combine_trait, lens=(0, 1, 2, 3)):
    """shared by Soes (OR), Sop (OR) and Esop (XOR): value reduction, concatenating operator,
    tabulation into a Lut, is_zero/is_one soundness"""
    C = Container(facts, adt)
    env = Env(facts)
    KD = env.kinds["dyn"]
    red = {"or": B.bor, "xor": B.bxor}[op]
    short = adt.split("::")[-1]
    chk.add(rule, "%s fields are private" % short, PROVED if C.private else REFUTED, "")
    # value(mask)
    b = C.method("value")
    for names in [["c%d" % j for j in range(L)] for L in lens] + [["c0", "c0"], ["c0", "c1", "c0"], ["c0", "c0", "c0"]]:
        L = len(names)
        key = "%s::value over terms %s" % (short, names) if len(set(names)) != L else "%s::value over %d terms" % (short, L)
        try:
            it = Interp(facts)
            install_stubs(it, facts, C.elem)
            st = State()
            v0 = C.mk(st, 4, names)
            outs = it.call_body(b, [arg_for(b["sig"]["inputs"][0], v0, st), watoms(64, "m")], st, {})
            o, v, d = single_return(outs)
            if o is not None:
                exp = ZERO
                for nm in names:
                    exp = red(exp, val_atom(nm, "m"))
                r = o.value
                if isinstance(r, W) and r.width == 1:
                    v, d = compare_bits(r.all_bits(), [exp], o.pc)
                    d = d and "value is not the %s of all term values: %s" % (op.upper(), d)
                else:
                    v, d = UNDECIDED, "result %r" % (r,)
        except Undecided as ex:
            v, d = UNDECIDED, ex.cause
        chk.add(rule, key, v, d, where=where_of(b), sample=dict(obligation=key, verdict=v) if L == 2 else None)
    # combining operator: concatenation (simplification handled by the caller for Sop)
    forms = [(bd, "<%s as %s>::%s" % (sty["s"], tr["s"], bd["name"])) for bd, sty, tr in facts.trait_impl_methods(combine_trait) if (sty["t"] if sty["k"] == "ref" else sty).get("path") == adt]
    chk.floor(rule + " operator forms", len(forms), 4)
    for bd, label in forms:
        for La, Lb in ((0, 0), (1, 0), (0, 2), (2, 1), (2, 2)):
            key = "%s with %d+%d terms" % (label, La, Lb)
            try:
                it = Interp(facts, max_paths=4096)
                install_stubs(it, facts, C.elem)
                stub_simplify(it, facts, C)
                st = State()
                na, nb_ = ["a%d" % j for j in range(La)], ["b%d" % j for j in range(Lb)]
                A, Bv = C.mk(st, 4, na), C.mk(st, 4, nb_)
                outs = it.call_body(bd, [arg_for(bd["sig"]["inputs"][0], A, st), arg_for(bd["sig"]["inputs"][1], Bv, st)], st, {})
                o, v, d = single_return(outs)
                if o is not None:
                    got = [elem_name(c) for c in C.cubes(it, o.state, o.value)]
                    nv = C.num_vars(o.value)
                    if nv.val != 4:
                        v, d = REFUTED, "result has num_vars %s" % nv.val
                    elif sorted(got) == sorted(na + nb_):
                        v, d = PROVED, ""
                    else:
                        v, d = REFUTED, "result terms %s, expected all of %s" % (got, na + nb_)
            except Undecided as ex:
                v, d = UNDECIDED, ex.cause
            chk.add(rule, key, v, d, where=where_of(bd))
    # From<&X> for Lut and From<X> for Lut
    for bd, sty, tr in facts.trait_impl_methods("std::convert::From"):
        if sty.get("path") != "lut::Lut" or len(tr["args"]) < 2:
            continue
        src = tr["args"][1]
        base = src["t"] if src["k"] == "ref" else src
        if base.get("path") != adt:
            continue
        label = "<Lut as %s>::from" % tr["s"]
        for n in (0, 1, 2, 3):
            for L in (0, 1, 2):
                key = "%s n=%d %d terms" % (label, n, L)
                try:
                    it = Interp(facts)
                    install_stubs(it, facts, C.elem)
                    st = State()
                    names = ["c%d" % j for j in range(L)]
                    v0 = C.mk(st, n, names)
                    outs = it.call_body(bd, [arg_for(bd["sig"]["inputs"][0], v0, st)], st, {})
                    o, v, d = single_return(outs)
                    if o is not None:
                        exp = []
                        for p in range(64):
                            if p < (1 << n):
                                e = ZERO
                                for nm in names:
                                    e = red(e, val_atom(nm, p))
                                exp.append(e)
                            else:
                                exp.append(ZERO)
                        v, d = check_table_value(env, "dyn", it, o.state, o.value, n, exp, o.pc)
                        d = d and "table is not the tabulation of value(): " + d
                except Undecided as ex:
                    v, d = UNDECIDED, ex.cause
                chk.add(rule, key, v, d, where=where_of(bd))
    # is_zero / is_one soundness (semantic): whenever the predicate can be true, the denoted function
    # - with value(c)=1 for terms assumed is_one and value(c)=0 for terms assumed is_zero - is that constant
    import itertools as _it
    for names in [[], ["c0"], ["c0", "c1"], ["c0", "c1", "c2"], ["c0", "c0"]]:
        L = len(names)
        for mname in ("is_zero", "is_one"):
            b = C.method(mname)
            key = "%s::%s with terms %s" % (short, mname, names)
            try:
                it = Interp(facts, max_paths=256)
                install_stubs(it, facts, C.elem)
                st = State()
                v0 = C.mk(st, 4, names)
                outs = it.call_body(b, [arg_for(b["sig"]["inputs"][0], v0, st)], st, {})
                v, d = PROVED, ""
                uniq = sorted(set(names))
                pred = "is_one" if mname == "is_one" else "is_zero"
                for o in outs:
                    s_, w_ = pc_status(o.pc)
                    if s_ == "unsat":
                        continue
                    if o.kind != "return":
                        v, d = UNDECIDED, "possible panic"
                        break
                    r = o.value
                    if not isinstance(r, W) or r.width != 1 or (r.val is None and r.bits[0] is None):
                        v, d = UNDECIDED, "result %r" % (r,)
                        break
                    for vals in _it.product((0, 1), repeat=len(uniq)):
                        asg = {B.ATOMS.get("%s(%s)" % (pred, nm)): x for nm, x in zip(uniq, vals)}
                        full = dict(asg)
                        conds_ok = True
                        for c in o.pc:
                            if isinstance(c, W) and c.val is None and c.bits[0] is not None:
                                if not set(c.bits[0][0]) <= set(full):
                                    conds_ok = None
                                    break
                                if not B.eval_bit(c.bits[0], full):
                                    conds_ok = False
                                    break
                        if conds_ok is None:
                            v, d = UNDECIDED, "path condition over other atoms"
                            break
                        if not conds_ok:
                            continue
                        rv = r.val if r.val is not None else (B.eval_bit(r.bits[0], full) if set(r.bits[0][0]) <= set(full) else None)
                        if rv is None:
                            v, d = UNDECIDED, "result depends on other atoms"
                            break
                        if not rv:
                            continue
                        known = {nm for nm, x in zip(uniq, vals) if x}
                        f = ZERO
                        for nm in names:
                            f = red(f, (ONE if mname == "is_one" else ZERO) if nm in known else val_atom(nm, "m"))
                        want = ONE if mname == "is_one" else ZERO
                        if f != want:
                            v, d = REFUTED, "%s holds for terms %s when %s are constant %s, but the form then denotes %s" % (mname, names, sorted(known) or "none", "one" if mname == "is_one" else "zero", B.describe(f))
                            break
                    if v != PROVED:
                        break
            except Undecided as ex:
                v, d = UNDECIDED, ex.cause
            chk.add(rule, key, v, d, where=where_of(b))
    return C


def stub_simplify(it, facts, C):
    """Sop::simplify (any private &mut self method of the container without other arguments) is kept
    as an identity that records it ran; its own semantics is rule C14.S"""
    for name, b in C.methods.items():
        ins = b["sig"]["inputs"]
        if b["vis"] != "pub" and len(ins) == 1 and ins[0]["k"] == "ref" and ins[0]["mut"] and b["sig"]["output"]["s"] == "()":
            def f(interp, fr, args, st, pc, t, name=name):
                interp.simplified = getattr(interp, "simplified", []) + [args[0]]
                return [Outcome("return", st, pc, Agg("tuple", None, 0, ()))]
            it.opaque_fns[b["key"]] = f
