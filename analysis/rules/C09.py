"""C09 - text forms are exact and fixed-width; parsing accepts exactly well-formed input.

Strings are token lists in the abstract interpreter (literal pieces read from the format-string
literal of each format macro call; one token per formatted value with its trait, zero flag and
width argument).
  C09.W  to_hex_string / to_bin_string: one zero-padded token per word, most significant word first,
         lower-hex / binary, per-word width 16 | max(1, 2^n/4)  resp. 64 | 2^n.
  C09.F  Display and LowerHex print Lut<n>(<hex>), Binary prints Lut<n>(<bin>).
  C09.P  from_hex_string on a symbolic string, partitioned by length: wrong lengths and non-ASCII
         text only return Err; no path panics (slicing is guarded by the ASCII test); on every Ok path
         each chunk passed an all-hex-digits test before u64::from_str_radix (which would accept '+'),
         the chunk at offset k*width lands in word T-1-k, and the stored value fits in 2^n bits.
Not decided: that core::fmt renders the digits of the value (trusted), upper-case acceptance.
"""
from .. import facts as F
from .. import specs as S
from ..harness import *
from ..absint import new_cell, RESULT

LEVEL = "other"


def hexw(n):
    return 16 if n >= 6 else max(1, (1 << n) // 4)


def binw(n):
    return 64 if n >= 6 else 1 << n


def word_tokens(toks, kind, width, n):
    """tokens must be exactly one formatted token per word, MSW first"""
    T = table_words(n)
    want_words = list(reversed(sym_words(n, "a")))
    if len(toks) != T:
        if all(tk[0] == "fmt" for tk in toks) and len(toks) < T:
            return REFUTED, "%d words are printed for a table of %d words" % (len(toks), T)
        return UNDECIDED, "printer shape not recognised (%d tokens for %d words)" % (len(toks), T)
    for k, (tk, ww) in enumerate(zip(toks, want_words)):
        if tk[0] != "fmt":
            # assembled some other way (pushed characters, digit loops): decided on text windows (C09.T), not here
            return UNDECIDED, "printer shape not recognised (token %d is %s)" % (k, tk[0])
        _, kd, flags, w, v = tk
        if kd != kind:
            return REFUTED, "word %d is formatted with %s, expected %s" % (k, kd, kind)
        if w is None and width > 1:
            return REFUTED, "word %d is printed without a fixed width (leading zeros are lost)" % k
        if w is None or w.val is None:
            if width == 1 and w is None:
                continue
            return UNDECIDED, "width not concrete"
        if w.val != width:
            return REFUTED, "word %d is printed with width %d, expected %d" % (k, w.val, width)
        if "0" not in flags and width > 1:
            return REFUTED, "word %d is not zero padded" % k
        if not isinstance(v, W):
            return UNDECIDED, "formatted value %r" % (v,)
        if v.all_bits() != ww.all_bits():
            rev = list(reversed(want_words))
            if T > 1 and v.all_bits() == rev[k].all_bits():
                return REFUTED, "words are printed least significant first"
            return REFUTED, "token %d does not print word %d of the table" % (k, T - 1 - k)
    return PROVED, ""


def printers(chk, env, kind, K, nmax, tag):
    """C09.W / C09.F on one configuration (tag "" = debug assertions on, " [rel]" = off: a printer must not depend on it)"""
    facts = env.facts
    for n in range(0, nmax + 1):
        for mname, fk, wd in (("to_hex_string", "lower_hex", hexw(n)), ("to_bin_string", "binary", binw(n))):
            key = "%s::%s n=%d%s" % (K.adt, mname, n, tag)
            b = K.method(mname)
            try:
                it = env.interp(max_steps=100000)      # the printers need < 3 000 steps today
                st = State()
                p = K.place(st, K.mk(st, n, sym_words(n, "a")))
                outs = it.call_body(b, [p], st, K.env(n))
                o, v, d = single_return(outs)
                if o is not None:
                    r = o.value
                    if isinstance(r, Opaque) and r.kind == "string":
                        v, d = word_tokens(r.data[0], fk, wd, n)
                    else:
                        v, d = UNDECIDED, "result %r" % (r,)
            except Undecided as e:
                v, d = UNDECIDED, e.cause
            chk.add("C09.W", key, v, d, where=where_of(b), sample=dict(obligation=key, verdict=v) if n in (2, 7) else None)
    # fmt traits
    for trp, fk, wf in (("std::fmt::Display", "lower_hex", hexw), ("std::fmt::LowerHex", "lower_hex", hexw), ("std::fmt::Binary", "binary", binw)):
        bs = [b for b, sty, tr in facts.trait_impl_methods(trp) if sty.get("path") == K.adt]
        if not bs:
            chk.refuted("C09.F", "anchor-missing: %s for %s%s" % (trp, K.adt, tag), "")
            continue
        for n in (0, 3, 6, 7, 9, 12) if chk.tier == "quick" else range(0, nmax + 1):
            key = "<%s as %s>::fmt n=%d%s" % (K.adt, trp.split("::")[-1], n, tag)
            try:
                it = env.interp(max_steps=100000)      # the printers need < 3 000 steps today
                st = State()
                p = K.place(st, K.mk(st, n, sym_words(n, "a")))
                fc = new_cell()
                st.mem[fc] = Opaque("formatter", ((),))
                outs = it.call_body(bs[0], [p, Ptr(fc, ())], st, K.env(n))
                o, v, d = single_return(outs)
                if o is not None:
                    toks = it.read_ptr(o.state, Ptr(fc, ())).data[0]
                    T = table_words(n)
                    ok = (len(toks) == T + 4 and toks[0] == ("lit", "Lut") and toks[2] == ("lit", "(") and toks[-1] == ("lit", ")")
                          and toks[1][0] == "fmt" and toks[1][1] == "display" and isinstance(toks[1][4], W) and toks[1][4].val == n)
                    if not ok:
                        v, d = REFUTED, "printed form is not Lut<n>(...): %s" % [t[:2] if t[0] == "fmt" else t for t in toks[:6]]
                    else:
                        v, d = word_tokens(toks[3:-1], fk, wf(n), n)
            except Undecided as e:
                v, d = UNDECIDED, e.cause
            chk.add("C09.F", key, v, d, where=where_of(bs[0]))


def run(chk):
    facts = F.load("dbg")
    env = Env(facts)
    env_rel = Env(F.load("rel"))
    nmax = 12
    chk.trust("core::fmt renders {:0w$x} / {:0w$b} as the zero-padded lower-case hex / binary digits of the value")
    chk.trust("u64::from_str_radix(s,16) returns Ok(v) with v < 16^len for digit strings, accepts a leading '+', Err otherwise (std)")
    chk.assume("format-string literals are read from the source text of the format macro call")
    for kind in ("dyn", "static"):
        K = env.kinds[kind]
        printers(chk, env, kind, K, nmax, "")
        printers(chk, env_rel, kind, env_rel.kinds[kind], nmax, " [rel]")
        # ---------------------------------------------------------------- printing, text windows
        text_windows(chk, env, kind, K)
        # ---------------------------------------------------------------- parsing, byte windows
        byte_windows(chk, env, kind, K)
        # ---------------------------------------------------------------- parsing
        b = K.method("from_hex_string")
        for n in range(0, nmax + 1):
            T = table_words(n)
            w = hexw(n)
            L0 = w * T
            for L in sorted({0, L0 - 1, L0, L0 + 1, L0 + 2} - {-1}):
                key = "%s::from_hex_string n=%d len=%d" % (K.adt, n, L)
                try:
                    it = env.interp(max_paths=4096)
                    st = State()
                    s = Opaque("str", (None, usize(L)))
                    args = ([usize(n)] if kind == "dyn" else []) + [s]
                    outs = it.call_body(b, args, st, K.env(n))
                    v, d = PROVED, ""
                    oks = 0
                    for o in outs:
                        s_, w_ = pc_status(o.pc)
                        if s_ == "unsat":
                            continue
                        if o.kind == "panic":
                            v, d = (REFUTED, "can panic (%s in %s) for a string of %d bytes%s" % (o.info.get("msg"), o.info.get("fn"), L, " " + str(w_) if w_ else "")) if s_ == "sat" else (UNDECIDED, "possible panic: %s" % o.info.get("msg"))
                            break
                        r = o.value
                        if not (isinstance(r, Agg) and r.key == RESULT):
                            v, d = UNDECIDED, "result %r" % (r,)
                            break
                        if r.variant == 1:
                            continue
                        oks += 1
                        if L != L0:
                            v, d = (REFUTED, "a string of %d characters is accepted for n=%d (expected exactly %d)" % (L, n, L0)) if s_ == "sat" else (UNDECIDED, "possible Ok")
                            break
                        # Ok path with the right length
                        atoms = set()
                        for c in o.pc:
                            if isinstance(c, W) and c.val is None and c.bits[0] is not None:
                                atoms.update(B.ATOMS.name(x) for x in c.bits[0][0])
                            elif isinstance(c, CS):
                                for cl in c.clauses:
                                    if cl is not None:
                                        atoms.update(B.ATOMS.name(x) for x in cl[0])
                        true_atoms = {B.ATOMS.name(c.bits[0][0][0]) for c in o.pc if isinstance(c, W) and c.val is None and c.bits[0] is not None and len(c.bits[0][0]) == 1 and c.bits[0][1] == 0b10}
                        import re as _re

                        def preds(names):
                            out = []
                            for a_ in names:
                                m_ = _re.match(r"^strpred@(\d+|\?)\+(\d+|\?):([\w-]+)#\d+$", a_)
                                if m_:
                                    s0 = int(m_.group(1)) if m_.group(1) != "?" else None
                                    l0 = int(m_.group(2)) if m_.group(2) != "?" else None
                                    out.append((s0, l0, m_.group(3)))
                            return out
                        true_preds, all_preds = preds(true_atoms), preds(atoms)

                        def covered(pos_, w_):
                            return any(tg == "hexdigit-all" and s0 is not None and l0 is not None and s0 <= pos_ and pos_ + w_ <= s0 + l0 for s0, l0, tg in true_preds)

                        def unknown_overlap(pos_, w_):
                            for s0, l0, tg in all_preds:
                                if tg in ("hexdigit-all",):
                                    continue
                                if s0 is None or l0 is None:
                                    return True
                                if tg == "prefix":
                                    if s0 >= pos_ and s0 < pos_ + w_:
                                        return True
                                    continue
                                if tg == "suffix":
                                    if s0 + l0 > pos_ and s0 + l0 <= pos_ + w_:
                                        return True
                                    continue
                                if s0 < pos_ + w_ and pos_ < s0 + l0:
                                    return True
                            return False
                        if "str.is_ascii" not in true_atoms and not all(covered(k * w, w) for k in range(T)):
                            v, d = UNDECIDED, "Ok path without the ASCII test"
                            break
                        words = K.words(it, o.state, r.fields[0])
                        unknown_chunk = None
                        for k in range(T):
                            pos = k * w
                            uses_parse = any(a.startswith("parse@%d" % pos) for a in atoms)
                            if uses_parse and not covered(pos, w):
                                if unknown_overlap(pos, w):
                                    unknown_chunk = k
                                else:
                                    v, d = REFUTED, "the chunk at offset %d reaches u64::from_str_radix without an all-hex-digits test: a leading '+' is accepted there (e.g. %s'+%s')" % (pos, "'" + "0" * pos + "' followed by " if pos else "", "f" * (w - 1))
                                    break
                        if v != PROVED:
                            break
                        if unknown_chunk is not None:
                            v, d = UNDECIDED, "chunk %d is guarded by a test the checker does not recognise" % unknown_chunk
                            break
                        for k in range(T):
                            pos = k * w
                            # chunk k lands in word T-1-k and nothing above 2^n
                            wd = words[T - 1 - k]
                            exp = [B.atom("parse@%d[%d]" % (pos, bb)) if bb < min(64, 4 * w) else ZERO for bb in range(64)]
                            v, d = compare_bits(wd.all_bits(), exp, o.pc)
                            if v != PROVED:
                                d = "chunk at offset %d is not stored in word %d: %s" % (pos, T - 1 - k, d)
                                break
                        if v != PROVED:
                            break
                        from .C02 import wellformed
                        v, d = wellformed(env, kind, it, o.state, r.fields[0], n, o.pc)
                        if v != PROVED:
                            break
                    if v == PROVED and L == L0 and oks == 0:
                        v, d = REFUTED, "no well-formed string of %d digits is accepted" % L0
                except Undecided as e:
                    v, d = UNDECIDED, e.cause
                chk.add("C09.P", key, v, d, where=where_of(b), sample=dict(obligation=key, verdict=v) if n in (1, 7) and L == L0 else None)
    chk.notes["explanation"] = "token-level abstract interpretation of the printers; parser analysed on symbolic strings partitioned by length with std's from_str_radix as a summary"
    chk.notes["n_range"] = [0, nmax]


def byte_windows(chk, env, kind, K):
    """C09.B: from_hex_string on strings of the right length whose characters are '0' except one or two *symbolic
    bytes* (7 free bits each: every single-byte character), in both build configurations.  The summary is evaluated on
    every value of the symbolic bytes and compared with the statement: lower-case hex digits / decimal digits give
    Ok(the denoted table) when the value fits in 2^n bits and Err otherwise; upper-case A-F give Err or the same table
    as their lower-case form; every other character gives Err; no value panics."""
    import itertools as _it
    from ..absint import Opaque as _Op
    facts_by_cfg = {"dbg": env.facts}
    for cfg in ("dbg", "rel"):
        facts = facts_by_cfg.get(cfg) or F.load(cfg)
        env2 = env if cfg == "dbg" else Env(facts)
        K2 = env2.kinds[kind]
        b = K2.method("from_hex_string")
        tag = "" if cfg == "dbg" else " [rel]"
        for n in (0, 1, 2, 3, 6, 7, 8):
            T, w = table_words(n), hexw(n)
            L = w * T
            positions = sorted({0, L - 1, w - 1, min(w, L - 1), L // 2})
            plans = [(L, (p_,)) for p_ in positions]
            if L >= 2:
                plans.append((L, (0, L - 1)))
            # wrong lengths (short by one, by less than a word, by a word; long by one; empty): Err for every character
            for L2 in sorted({L - 1, L + 1, L - w + 1, L - w, 0, 1} - {L}):
                if L2 >= 0:
                    plans.append((L2, (0,) if L2 else ()))
            Lok = L
            for L, pos in plans:
                key = "%s::from_hex_string n=%d, %d characters (%d expected), %s symbolic, the others '0'%s" % (K2.adt, n, L, Lok, list(pos), tag)
                try:
                    names, byts = [], []
                    for p_ in range(L):
                        if p_ in pos:
                            ats = ["hx%d[%d]" % (p_, k_) for k_ in range(7)]
                            names += ats
                            byts.append(W(8, bits=[B.atom(x) for x in ats] + [ZERO]))
                        else:
                            byts.append(wconst(8, 48))
                    it = env2.interp(max_paths=8192)
                    it.prune = True
                    space = Space(names)
                    it.space = space
                    st = State()
                    s_arg = _Op("bstr", (tuple(byts),))
                    with space:
                        outs = it.call_body(b, ([usize(n)] if kind == "dyn" else []) + [s_arg], st, K2.env(n))
                    owner = {}
                    for idx_, o in enumerate(outs):
                        m_ = space.pc_mask(o.pc)
                        if m_ is None:
                            raise Undecided("path condition with top")
                        while m_:
                            low = m_ & -m_
                            owner.setdefault(low.bit_length() - 1, []).append(idx_)
                            m_ ^= low
                    v, d = PROVED, ""
                    for vals in _it.product(range(128), repeat=len(pos)):
                        named = {}
                        for p_, bv in zip(pos, vals):
                            for k_ in range(7):
                                named["hx%d[%d]" % (p_, k_)] = (bv >> k_) & 1
                        text = "".join(chr(dict(zip(pos, vals)).get(p_, 48)) for p_ in range(L))
                        en = [outs[x_] for x_ in owner.get(space.index(named), [])]
                        if len(en) != 1:
                            v, d = UNDECIDED, "%d paths enabled for %r" % (len(en), text)
                            break
                        o = en[0]
                        if o.kind != "return":
                            v, d = REFUTED, "from_hex_string(%s%r) panics (%s)" % ("%d, " % n if kind == "dyn" else "", text, o.info.get("msg"))
                            break
                        hexl = bool(text) and all(c in "0123456789abcdef" for c in text)
                        hexu = bool(text) and all(c in "0123456789abcdefABCDEF" for c in text)
                        val = int(text, 16) if (hexu and text) else None
                        fits = val is not None and val < (1 << (1 << n)) and L == Lok
                        r_ = o.value
                        is_ok = isinstance(r_, Agg) and r_.variant == 0
                        if hexl and fits:
                            must = "ok"
                        elif hexu and fits:
                            must = "ok-or-err"
                        else:
                            must = "err"
                        if not is_ok:
                            if must == "ok":
                                v, d = REFUTED, "from_hex_string(%r) returns Err for a well-formed string" % text
                                break
                            continue
                        if must == "err":
                            v, d = REFUTED, "from_hex_string(%r) returns Ok for a string that does not denote a %d-variable table" % (text, n)
                            break
                        asg = {B.ATOMS.get(k_): v_ for k_, v_ in named.items()}
                        words = K2.words(it, o.state, r_.fields[0])
                        got = 0
                        for j, w_ in enumerate(words):
                            ev = eval_value(w_, asg)
                            if ev is None:
                                raise Undecided("table word with top")
                            got |= ev << (64 * j)
                        if got != val:
                            v, d = REFUTED, "from_hex_string(%r) yields the table %x instead of %x" % (text, got, val)
                            break
                except Undecided as e:
                    v, d = UNDECIDED, e.cause
                chk.add("C09.B", key, v, d, where=where_of(b))


def text_windows(chk, env, kind, K):
    """C09.T: the printers on tables with a few symbolic bits (window mode; the output may be assembled from format
    tokens, pushed characters or hand-written digit loops - byte tokens carry exact bit functions).  The summary is
    evaluated on every choice of the bits and the rendered text is compared with the definition: fixed-width digits,
    most significant bit first, wrapped as Lut<n>(..) by Display / LowerHex / Binary."""
    from ..absint import new_cell, Opaque as _Op
    from ..stdmodel import render_text
    facts = env.facts
    entries = []
    for mname, base in (("to_hex_string", "hex"), ("to_bin_string", "bin")):
        if mname in K.methods:
            entries.append((K.methods[mname], "%s::%s" % (K.adt, mname), base, False))
    for trp, base in (("std::fmt::Display", "hex"), ("std::fmt::LowerHex", "hex"), ("std::fmt::Binary", "bin")):
        for b, sty, tr in facts.trait_impl_methods(trp):
            if sty.get("path") == K.adt:
                entries.append((b, "<%s as %s>::fmt" % (K.adt, trp.split("::")[-1]), base, True))
    for n in (0, 2, 3, 6, 7, 8):
        nb = 1 << n
        pos = sorted({0, nb - 1, nb // 2, 63 % nb, 64 % nb, (nb - 2) % nb})[:5]
        for b, label, base, wrapped in entries:
            key = "%s n=%d, table bits %s symbolic" % (label, n, pos)
            try:
                names = ["a[%d]" % p_ for p_ in pos]
                space = Space(names)
                it = env.interp(max_paths=8192)
                it.max_steps = 100000     # needs < 100 today (the std summaries do the work)
                it.prune = True
                it.cmp_split = True
                it.split_all = True
                it.space = space
                st = State()
                words = [W(64, bits=[B.atom("a[%d]" % (w_ * 64 + p_)) if (w_ * 64 + p_) in pos else ZERO for p_ in range(64)]) for w_ in range(table_words(n))]
                pl = K.place(st, K.mk(st, n, words))
                args = [pl]
                fc = None
                if wrapped:
                    fc = new_cell()
                    st.mem[fc] = _Op("formatter", ((),))
                    args.append(Ptr(fc, ()))
                with space:
                    outs = it.call_body(b, args, st, K.env(n))
                v, d = PROVED, ""
                seen = 0
                for o in outs:
                    m_ = space.pc_mask(o.pc)
                    if m_ is None:
                        raise Undecided("path condition with top")
                    if not m_:
                        continue
                    if o.kind != "return":
                        v, d = REFUTED, "printing panics (%s)" % o.info.get("msg")
                        break
                    if wrapped:
                        r = o.value
                        if isinstance(r, Agg) and r.variant != 0:
                            v, d = REFUTED, "printing returns an error"
                            break
                        toks = it.read_ptr(o.state, Ptr(fc, ())).data[0]
                    else:
                        r = o.value
                        if not (isinstance(r, _Op) and r.kind == "string"):
                            raise Undecided("result %r" % (r,))
                        toks = r.data[0]
                    while m_ and v == PROVED:
                        low = m_ & -m_
                        r_ = low.bit_length() - 1
                        m_ ^= low
                        if seen & low:
                            raise Undecided("two paths for one table")
                        seen |= low
                        asg = {B.ATOMS.get(nm): (r_ >> j) & 1 for j, nm in enumerate(names)}
                        f = sum(((r_ >> j) & 1) << p_ for j, p_ in enumerate(pos))
                        digits = ("%0*x" % (max(1, nb // 4), f)) if base == "hex" else ("{:0{w}b}".format(f, w=nb))
                        want = ("Lut%d(%s)" % (n, digits)) if wrapped else digits
                        got = render_text(toks, asg)
                        if got != want:
                            v, d = REFUTED, "the table %#x prints as %r, expected %r" % (f, got if len(got) < 90 else got[:40] + ".." + got[-40:], want if len(want) < 90 else want[:40] + ".." + want[-40:])
                if v == PROVED and seen != space.full:
                    v, d = UNDECIDED, "paths do not cover every table"
            except Undecided as e:
                v, d = UNDECIDED, e.cause
            chk.add("C09.T", key, v, d, where=where_of(b))
