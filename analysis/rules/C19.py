"""C19 - random() is well formed and not degenerate (bit provenance, E4).

Decided: in random() of both types, for each n, every table bit below 2^n is a *copy of a
distinct bit of a fresh next_u64 draw* of rand::thread_rng (so every assignment can take both
values and words do not share draws), every bit at or above 2^n is constant 0, the crate holds
no static state, and the function exists only with the `rand` feature.
  C19.seed  (who-may-construct + seed provenance) every explicitly seeded generator in the crate (SeedableRng::
         seed_from_u64 / from_seed, <Rng>::new(state..)) is looked at: the seed operand is sliced backwards through
         the body (copies, derefs, casts, arithmetic, call results).  A generator that is built per call or per
         thread (not inside the initialiser of a process-wide static) from a seed whose sources are only
         compile-time constants and write-once statics (OnceLock / LazyLock / immutable static) replays one
         stream: two calls, or two threads, return the same tables -> violation.  Entropy sources (thread_rng,
         OsRng, from_entropy, getrandom) discharge the site; anything else is left undecided.
Not decided: statistical quality / independence of rand's generator (trusted dependency).
"""
import re
from .. import facts as F
from ..harness import *

LEVEL = "other"


def run(chk):
    facts = F.load("dbg")
    env = Env(facts)
    nmax = 12
    chk.trust("rand::thread_rng / RngCore::next_u64 return fresh uniformly distributed 64-bit draws from a thread-local generator (rand 0.8)")
    chk.trust("rustc MIR construction; std summaries")
    chk.assume("statistical independence of successive draws is a property of the rand crate")
    # both build configurations: a draw placed inside a debug assertion disappears from release builds
    for cfg in ("dbg", "rel"):
        tag = "" if cfg == "dbg" else " [rel]"
        if cfg != "dbg":
            env = Env(F.load(cfg))
        for kind in ("dyn", "static"):
            K = env.kinds[kind]
            b = K.methods.get("random")
            if b is None:
                chk.refuted("C19.anchor", "anchor-missing: %s::random%s" % (K.adt, tag), "random() not found with default features")
                continue
            for n in range(0, nmax + 1):
                key = "%s::random n=%d%s" % (K.adt, n, tag)
                try:
                    it = env.interp()
                    st = State()
                    outs = it.call_body(b, [usize(n)] if kind == "dyn" else [], st, K.env(n))
                    o, v, d = single_return(outs)
                    if o is not None:
                        words = K.words(it, o.state, o.value)
                        nv = K.num_vars_of(o.value)
                        bits = bits_of_table(words, n)
                        seen = {}
                        v, d = PROVED, ""
                        if len(words) != table_words(n) or (nv is not None and nv.val != n):
                            v, d = REFUTED, "result has %d blocks / num_vars %s for n=%d" % (len(words), nv, n)
                        for p, bt in enumerate(bits):
                            if v != PROVED:
                                break
                            if p >= (1 << n):
                                if bt is None:
                                    v, d = UNDECIDED, "unused bit %d is top" % p
                                elif bt != ZERO:
                                    v, d = REFUTED, "bit %d (>= 2^%d) of the random table can be set (%s)" % (p, n, B.describe(bt))
                                continue
                            if bt is None:
                                v, d = UNDECIDED, "bit %d is top" % p
                            elif not bt[0]:
                                v, d = REFUTED, "bit %d of the random table is the constant %d" % (p, bt[1])
                            elif len(bt[0]) != 1 or not B.ATOMS.name(bt[0][0]).startswith("rng"):
                                v, d = UNDECIDED, "bit %d is not a plain copy of a generator bit: %s" % (p, B.describe(bt))
                            else:
                                a = bt[0][0]
                                if a in seen:
                                    v, d = REFUTED, "bits %d and %d of the random table are the same generator bit %s (shared draw)" % (seen[a], p, B.ATOMS.name(a))
                                seen[a] = p
                        if v == PROVED and getattr(it, "rng_sources", 0) < 1:
                            v, d = UNDECIDED, "generator handle not obtained from rand::thread_rng"
                        if v == PROVED and it.rng_calls < table_words(n):
                            v, d = REFUTED, "%d draws for %d words" % (it.rng_calls, table_words(n))
                except Undecided as e:
                    v, d = UNDECIDED, e.cause
                chk.add("C19.provenance", key, v, d, where=where_of(b),
                        sample=dict(obligation=key, draws=it.rng_calls, verdict=v) if n in (3, 8) else None)
    seed_rule(chk, facts)
    sequence_rule(chk)
    race_rule(chk, facts, Env(facts))
    ns = len(facts.raw["statics"])
    chk.add("C19.no-static", "no static item in the crate", PROVED if ns == 0 else UNDECIDED, "%d statics" % ns)
    if chk.tier == "thorough":
        fn = F.load("nodef")
        has = [b["path"] for b in fn.lib_bodies() if b["name"] in ("random", "fill_random")]
        chk.add("C19.feature", "random() absent without the rand feature", PROVED if not has else REFUTED, ", ".join(has))
    chk.notes["explanation"] = "bit provenance of random(): every table bit < 2^n is a distinct fresh generator bit, every other bit constant 0; rand itself is trusted"
    chk.notes["n_range"] = [0, nmax]


def race_rule(chk, facts, env):
    """C19.race: a read-modify-write of a `static` atomic done as load .. store (not fetch_add / fetch_update /
    compare_exchange) in a body random() reaches.  Two threads that load the same state both derive the same next
    state and the same output from it - random() hands the same words to both ("draws differ ... from any thread"
    fails) - and a late store rewinds the stream.  Forward dataflow over the MIR body: which locals may hold a value
    derived from `S.load()`; an assignment from something else kills it (so "load, and store a fresh seed when it was
    0" is not flagged: that store does not depend on the load)."""
    by_key = {b["key"]: b for b in facts.lib_bodies()}
    # bodies reachable from random()
    todo = [K.methods["random"] for K in env.kinds.values() if K.methods.get("random")]
    seen = set()
    reach = []
    while todo:
        b = todo.pop()
        if b["key"] in seen:
            continue
        seen.add(b["key"])
        reach.append(b)
        for blk in b["mir"]["blocks"]:
            t = blk["term"]
            if t["k"] == "call":
                f_ = t.get("func") or {}
                for key in ((f_.get("resolved") or {}).get("key"), f_.get("key")):
                    if key in by_key:
                        todo.append(by_key[key])
                for a_ in t["args"]:
                    ck = ((a_.get("ty") or {}).get("key") if isinstance(a_, dict) and (a_.get("ty") or {}).get("k") == "closure" else None)
                    if ck in by_key:
                        todo.append(by_key[ck])
            for st_ in blk["stmts"]:
                if st_["k"] == "assign" and st_["rv"]["k"] == "aggregate" and (st_["rv"].get("agg") or {}).get("k") == "closure":
                    ck = st_["rv"]["agg"].get("key")
                    if ck in by_key:
                        todo.append(by_key[ck])
    sites = 0
    for b in reach:
        blocks = b["mir"]["blocks"]
        # which static does a reference-typed local point to (flow-insensitive: such temporaries are assigned once)
        ref_static = {}
        changed = True
        while changed:
            changed = False
            for blk in blocks:
                for st_ in blk["stmts"]:
                    if st_["k"] != "assign" or st_["place"].get("p"):
                        continue
                    rv, l = st_["rv"], st_["place"]["l"]
                    src = None
                    if rv["k"] in ("use", "cast"):
                        op = rv.get("op") or {}
                        if op.get("k") == "const" and op.get("static"):
                            src = op["static"]
                        elif op.get("k") in ("copy", "move"):
                            src = ref_static.get(op["place"]["l"])
                    elif rv["k"] in ("ref", "addr_of", "copy_for_deref"):
                        src = ref_static.get(rv["place"]["l"])
                    if src and ref_static.get(l) != src:
                        ref_static[l] = src
                        changed = True

        def static_of(op):
            if op.get("k") == "const":
                return op.get("static")
            if op.get("k") in ("copy", "move"):
                return ref_static.get(op["place"]["l"])
            return None

        def op_locals(rv):
            out = []
            def walk(x):
                if isinstance(x, dict):
                    if x.get("k") in ("copy", "move") and "place" in x:
                        out.append(x["place"]["l"])
                    elif "l" in x and "p" in x and isinstance(x.get("l"), int):
                        out.append(x["l"])
                    for v_ in x.values():
                        walk(v_)
                elif isinstance(x, list):
                    for v_ in x:
                        walk(v_)
            walk(rv)
            return out
        has_atomic = any(blk["term"]["k"] == "call" and re.search(r"atomic::Atomic\w*(::<[^>]*>)?::(load|store)$", callee_path(blk["term"])) for blk in blocks)
        if not has_atomic:
            continue
        IN = [dict() for _ in blocks]      # local -> set of statics its value may derive from a load of
        work = [0]
        visited = set()
        found = {}
        def join(dst, src):
            ch = False
            for l, ss in src.items():
                cur = dst.get(l, frozenset())
                if not ss <= cur:
                    dst[l] = cur | ss
                    ch = True
            return ch
        while work:
            bi = work.pop()
            cur = dict(IN[bi])
            blk = blocks[bi]
            for st_ in blk["stmts"]:
                if st_["k"] != "assign":
                    continue
                l = st_["place"]["l"]
                t_ = frozenset().union(*[cur.get(x, frozenset()) for x in op_locals(st_["rv"])]) if op_locals(st_["rv"]) else frozenset()
                if st_["place"].get("p"):
                    cur[l] = cur.get(l, frozenset()) | t_
                else:
                    cur[l] = t_
            t = blk["term"]
            succ = []
            if t["k"] == "call":
                cp = callee_path(t)
                argt = frozenset().union(*[cur.get(x, frozenset()) for a_ in t["args"] for x in op_locals(a_)]) if t["args"] else frozenset()
                m = re.search(r"atomic::Atomic\w*(::<[^>]*>)?::(load|store)$", cp)
                if m and t["args"]:
                    S_ = static_of(t["args"][0])
                    if m.group(2) == "load" and S_:
                        argt = argt | frozenset([S_])
                    if m.group(2) == "store" and S_ and len(t["args"]) > 1:
                        vt = frozenset().union(*[cur.get(x, frozenset()) for x in op_locals(t["args"][1])]) if op_locals(t["args"][1]) else frozenset()
                        if S_ in vt:
                            found[S_] = t
                if t.get("dest") is not None and not t["dest"].get("p"):
                    cur[t["dest"]["l"]] = argt
                succ = [t["t"]] if t.get("t") is not None else []
            elif t["k"] == "switch":
                succ = [x[1] for x in t["arms"]] + [t["otherwise"]]
            elif t["k"] in ("goto",):
                succ = [t["t"]] if "t" in t else [t.get("target")]
            elif t["k"] in ("assert", "drop"):
                succ = [t["t"]]
            for sb in succ:
                if sb is None:
                    continue
                if join(IN[sb], cur) or sb not in visited:
                    visited.add(sb)
                    work.append(sb)
        for S_, t in found.items():
            sites += 1
            chk.add("C19.race", "read-modify-write of the static %s in %s" % (S_, b["path"]), REFUTED,
                    "the value stored into the static atomic %s derives from an earlier load of it in the same body (load .. store, not one atomic read-modify-write): two threads calling random() at the same time can load the same state and are handed the same words" % S_, where=where_of(b))
    if not sites:
        chk.add("C19.race", "no load..store update of a static atomic reachable from random()", PROVED, "%d bodies reachable" % len(reach))


def sequence_rule(chk):
    """C19.seq: a history of draws on one thread.  random() is called repeatedly on one abstract state (storage that
    outlives a call - thread_local!/static buffers, cursors - is part of it) and every bit below 2^n of every draw
    must be a generator bit that no earlier draw of the history used: a draw that hands out words of an earlier draw
    again (a pool whose cursor wraps without a refill) repeats tables on that thread."""
    env = Env(F.load("dbg"))
    plans = [(12, 3), (9, 10), (6, 70)] if chk.tier == "quick" else [(12, 4), (11, 4), (10, 6), (9, 10), (8, 18), (7, 34), (6, 70), (3, 70), (0, 70)]
    for kind in ("dyn", "static"):
        K = env.kinds[kind]
        b = K.methods.get("random")
        if b is None:
            continue
        for n, draws in plans:
            key = "%s::random n=%d, %d consecutive draws on one thread" % (K.adt, n, draws)
            try:
                it = env.interp()
                st = State()
                used = {}
                v, d = PROVED, ""
                for k in range(draws):
                    outs = it.call_body(b, [usize(n)] if kind == "dyn" else [], st, K.env(n))
                    o, v, d = single_return(outs)
                    if o is None:
                        break
                    st = o.state
                    for p_, bt in enumerate(bits_of_table(K.words(it, o.state, o.value), n)[:1 << n]):
                        if bt is None or len(bt[0]) != 1 or not B.ATOMS.name(bt[0][0]).startswith("rng"):
                            v, d = UNDECIDED, "draw %d: bit %d is not a plain copy of a generator bit" % (k + 1, p_)
                            break
                        a_ = bt[0][0]
                        if a_ in used and used[a_][0] != k:
                            v, d = REFUTED, ("draw %d on a thread hands out generator output already handed out by draw %d of the same history "
                                             "(bit %d is the generator bit %s, which was bit %d there): tables repeat" % (k + 1, used[a_][0] + 1, p_, B.ATOMS.name(a_), used[a_][1]))
                            break
                        used[a_] = (k, p_)
                    if v != PROVED:
                        break
            except Undecided as e:
                v, d = UNDECIDED, e.cause
            chk.add("C19.seq", key, v, d, where=where_of(b))


SEEDED_RE = re.compile(r"(SeedableRng::(seed_from_u64|from_seed)$)|(rngs?::(mock::)?\w*Rng\w*::new$)|(Pcg\w*::new$)|(ChaCha\w*::new$)")
ENTROPY_RE = re.compile(r"(thread_rng$)|(OsRng)|(from_entropy$)|(getrandom)|(rand::random$)|(from_os_rng$)|(ThreadRng)")
ONCE_TYPES = ("std::sync::OnceLock", "std::sync::LazyLock", "std::cell::OnceCell", "std::cell::LazyCell", "once_cell::", "lazy_static::")
MUTABLE_TYPES = ("std::sync::atomic::", "std::sync::Mutex", "std::sync::RwLock", "std::cell::Cell", "std::cell::RefCell", "std::cell::UnsafeCell")


def callee_path(t):
    f_ = t.get("func") or {}
    r_ = f_.get("resolved") or {}
    return r_.get("path") or f_.get("path") or ""


def seed_sources(body, operand):
    """backward slice of an operand inside one MIR body -> set of source tags"""
    defs = {}
    for blk in body["mir"]["blocks"]:
        for st_ in blk["stmts"]:
            if st_["k"] == "assign":
                defs.setdefault(st_["place"]["l"], []).append(("rv", st_["rv"]))
        t = blk["term"]
        if t["k"] == "call" and t.get("dest") is not None:
            defs.setdefault(t["dest"]["l"], []).append(("call", t))
    nargs = len(body["sig"]["inputs"]) if body.get("sig") else 0
    out, seen = set(), set()

    def ty_tag(ty):
        s_ = (ty.get("t") or ty).get("s", "") if ty.get("k") == "ref" else ty.get("s", "")
        if any(x in s_ for x in MUTABLE_TYPES):
            return "static-mutable"
        return "static-once"

    def op_src(op):
        if op["k"] in ("copy", "move"):
            local(op["place"]["l"])
        elif op["k"] == "const":
            if op.get("static"):
                tag = "static-mutable" if op.get("static_mut") else ty_tag(op["ty"])
                out.add((tag, op["static"]))
            elif op.get("uneval") and (op["uneval"].get("promoted") is not None):
                out.add(("unknown", "promoted constant"))
            else:
                out.add(("const", str(op.get("val"))[:20]))
        else:
            out.add(("unknown", op["k"]))

    def local(l):
        if l in seen:
            return
        seen.add(l)
        if 1 <= l <= nargs:
            out.add(("param", "argument %d" % l))
            return
        for kind, d in defs.get(l, []):
            if kind == "call":
                cp = callee_path(d)
                if ENTROPY_RE.search(cp):
                    out.add(("entropy", cp))
                    continue
                # a write-once cell hands back what it stored the first time, whatever the closure computes
                if re.search(r"(OnceLock|OnceCell|LazyLock|LazyCell)::<[^>]*>::(get_or_init|get|force|deref|wait)$", cp) or cp.endswith("LazyLock::force"):
                    if d["args"]:
                        op_src(d["args"][0])
                    continue
                if re.search(r"(time::|Instant|SystemTime|thread::current|ThreadId|process::id|RandomState|DefaultHasher)", cp):
                    out.add(("varying", cp))
                    continue
                if not d["args"]:
                    out.add(("unknown", "result of " + cp))
                for a_ in d["args"]:
                    op_src(a_)
                if not (cp.startswith("std::") or cp.startswith("core::") or "::wrapping_" in cp):
                    out.add(("unknown", "through " + cp))
            else:
                rv = d
                k = rv["k"]
                if k in ("use", "cast", "unary", "shallow_init_box", "repeat"):
                    op_src(rv["op"] if "op" in rv else rv.get("operand"))
                elif k in ("ref", "addr_of", "len", "discriminant", "copy_for_deref"):
                    local(rv["place"]["l"])
                elif k in ("binary", "checked_binary"):
                    for o_ in (rv.get("l"), rv.get("r"), rv.get("a"), rv.get("b")):
                        if isinstance(o_, dict):
                            op_src(o_)
                    for o_ in rv.get("ops", []) if isinstance(rv.get("ops"), list) else []:
                        op_src(o_)
                elif k == "aggregate":
                    for o_ in rv.get("ops", []):
                        op_src(o_)
                elif k == "tls":
                    out.add(("thread-local", rv.get("path")))
                else:
                    out.add(("unknown", "rvalue " + k))
        if l not in defs:
            out.add(("unknown", "local %d" % l))
    op_src(operand)
    return out


def seed_rule(chk, facts):
    bodies = list(facts.lib_bodies())
    by_key = {b["key"]: b for b in bodies}
    # callers of each local body (calls, closures created, function items mentioned)
    callers = {}
    for b in bodies:
        for blk in b["mir"]["blocks"]:
            t = blk["term"]
            if t["k"] == "call":
                f_ = (t.get("func") or {})
                r_ = f_.get("resolved") or {}
                for key in (r_.get("key"), f_.get("key")):
                    if key in by_key:
                        callers.setdefault(key, set()).add(b["key"])
                # closures handed to the callee
                for a_ in (f_.get("args") or []):
                    if isinstance(a_, dict) and a_.get("k") == "closure" and a_.get("key") in by_key:
                        callers.setdefault(a_["key"], set()).add(b["key"] + " via " + callee_path(t))
            for st_ in blk["stmts"]:
                if st_["k"] == "assign" and st_["rv"]["k"] == "aggregate" and (st_["rv"].get("agg") or {}).get("k") == "closure":
                    ck = st_["rv"]["agg"].get("key")
                    if ck in by_key:
                        callers.setdefault(ck, set()).add(b["key"])
    static_keys = {s_["key"] for s_ in facts.raw["statics"]}
    sites = 0
    for b in bodies:
        for bi, blk in enumerate(b["mir"]["blocks"]):
            t = blk["term"]
            if t["k"] != "call":
                continue
            cp = callee_path(t)
            if not SEEDED_RE.search(cp) or not t["args"]:
                continue
            sites += 1
            key = "seeded generator built in %s (%s)" % (b["path"], cp.split("::")[-1])
            srcs = set()
            for a_ in t["args"]:
                srcs |= seed_sources(b, a_)
            tags = {x[0] for x in srcs}
            # where is the generator built?  process-wide only if every way to reach the body goes through the
            # initialiser of a static (a static item's body, or a closure given to OnceLock/LazyLock of a static)
            def scope(k, depth=0, seen=None):
                seen = seen or set()
                if k in seen or depth > 6:
                    return {"unknown"}
                seen.add(k)
                if k in static_keys:
                    return {"process"}
                bb = by_key.get(k)
                if bb is not None and "__rust_std_internal_init_fn" in bb["path"]:
                    return {"thread"}
                cs = callers.get(k, set())
                if not cs:
                    return {"call"}    # a root: public function / not referenced inside the crate
                res = set()
                for c in cs:
                    ck = c.split(" via ")[0]
                    if " via " in c and re.search(r"(OnceLock|LazyLock|OnceCell|LazyCell|Once)::", c.split(" via ")[1]):
                        # the closure runs once per cell: process-wide if the cell is a static, else per owner
                        res |= {"once-cell"}
                    else:
                        res |= scope(ck, depth + 1, seen)
                return res
            sc = scope(b["key"])
            what = ", ".join(sorted("%s %s" % x for x in srcs))
            if "entropy" in tags and not (tags - {"entropy", "const"}):
                v, d = PROVED, ""
            elif tags and tags <= {"const", "static-once"} and sc and sc <= {"thread", "call"}:
                per = "thread" if "thread" in sc else "call"
                v, d = REFUTED, ("the generator is built once per %s but its seed comes only from %s: every %s replays the same stream, "
                                 "so the k-th tables drawn by two %ss are equal" % (per, what, per, per))
            else:
                v, d = UNDECIDED, "seed sources: %s; built per %s" % (what or "none found", "/".join(sorted(sc)))
            chk.add("C19.seed", key, v, d, where=where_of(b))
    chk.add("C19.seed", "generators used by the crate", PROVED if sites == 0 else UNDECIDED,
            "" if sites == 0 else "%d explicitly seeded generator(s), judged individually above" % sites)
