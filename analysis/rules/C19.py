"""C19 - random() is well formed and not degenerate (bit provenance, E4).

Decided: in random() of both types, for each n, every table bit below 2^n is a *copy of a
distinct bit of a fresh next_u64 draw* of rand::thread_rng (so every assignment can take both
values and words do not share draws), every bit at or above 2^n is constant 0, the crate holds
no static state, and the function exists only with the `rand` feature.
Not decided: statistical quality / independence of rand's generator (trusted dependency).
"""
from .. import facts as F
from ..harness import *

LEVEL = "other"


def run(chk):
    facts = F.load("dbg")
    env = Env(facts)
    nmax = 12
    chk.trust("rand::thread_rng / RngCore::next_u64 return fresh uniformly distributed 64-bit draws from a thread-local generator (rand 0.8)")
    chk.trust("rustc MIR construction; std summaries")
    chk.assume("statistical independence of successive draws is a property of the rand crate")
    for kind in ("dyn", "static"):
        K = env.kinds[kind]
        b = K.methods.get("random")
        if b is None:
            chk.refuted("C19.anchor", "anchor-missing: %s::random" % K.adt, "random() not found with default features")
            continue
        for n in range(0, nmax + 1):
            key = "%s::random n=%d" % (K.adt, n)
            try:
                it = env.interp()
                st = State()
                outs = it.call_body(b, [usize(n)] if kind == "dyn" else [], st, K.env(n))
                o, v, d = single_return(outs)
                if o is not None:
                    words = K.words(it, o.state, o.value)
                    nv = K.num_vars_of(o.value)
                    bits = bits_of_table(words, n)
                    seen = {}
                    v, d = PROVED, ""
                    if len(words) != table_words(n) or (nv is not None and nv.val != n):
                        v, d = REFUTED, "result has %d blocks / num_vars %s for n=%d" % (len(words), nv, n)
                    for p, bt in enumerate(bits):
                        if v != PROVED:
                            break
                        if p >= (1 << n):
                            if bt is None:
                                v, d = UNDECIDED, "unused bit %d is top" % p
                            elif bt != ZERO:
                                v, d = REFUTED, "bit %d (>= 2^%d) of the random table can be set (%s)" % (p, n, B.describe(bt))
                            continue
                        if bt is None:
                            v, d = UNDECIDED, "bit %d is top" % p
                        elif not bt[0]:
                            v, d = REFUTED, "bit %d of the random table is the constant %d" % (p, bt[1])
                        elif len(bt[0]) != 1 or not B.ATOMS.name(bt[0][0]).startswith("rng"):
                            v, d = UNDECIDED, "bit %d is not a plain copy of a generator bit: %s" % (p, B.describe(bt))
                        else:
                            a = bt[0][0]
                            if a in seen:
                                v, d = REFUTED, "bits %d and %d of the random table are the same generator bit %s (shared draw)" % (seen[a], p, B.ATOMS.name(a))
                            seen[a] = p
                    if v == PROVED and getattr(it, "rng_sources", 0) < 1:
                        v, d = UNDECIDED, "generator handle not obtained from rand::thread_rng"
                    if v == PROVED and it.rng_calls < table_words(n):
                        v, d = REFUTED, "%d draws for %d words" % (it.rng_calls, table_words(n))
            except Undecided as e:
                v, d = UNDECIDED, e.cause
            chk.add("C19.provenance", key, v, d, where=where_of(b),
                    sample=dict(obligation=key, draws=it.rng_calls, verdict=v) if n in (3, 8) else None)
    ns = len(facts.raw["statics"])
    chk.add("C19.no-static", "no static item in the crate", PROVED if ns == 0 else UNDECIDED, "%d statics" % ns)
    if chk.tier == "thorough":
        fn = F.load("nodef")
        has = [b["path"] for b in fn.lib_bodies() if b["name"] in ("random", "fill_random")]
        chk.add("C19.feature", "random() absent without the rand feature", PROVED if not has else REFUTED, ", ".join(has))
    chk.notes["explanation"] = "bit provenance of random(): every table bit < 2^n is a distinct fresh generator bit, every other bit constant 0; rand itself is trusted"
    chk.notes["n_range"] = [0, nmax]
