"""Bit-granular abstract domain ("bitflow").

A *bit value* is a Boolean function of at most K named atoms (symbolic input bits), kept in a
canonical form (sorted atom tuple, truth table with no vacuous atom), or TOP.  A *word* is a
vector of bit values.  All operations are exact as long as the support bound is not exceeded;
beyond it the bit becomes TOP.  TOP never takes part in a refutation.
"""
from functools import lru_cache

K = 6  # support bound (atoms per bit)


class Atoms:
    """Registry of symbolic input bits."""

    def __init__(self):
        self.names = []
        self.index = {}

    def get(self, name):
        i = self.index.get(name)
        if i is None:
            i = len(self.names)
            self.names.append(name)
            self.index[name] = i
        return i

    def name(self, i):
        return self.names[i]


ATOMS = Atoms()

# a bit is a tuple (atoms_tuple, tt) or TOP
ZERO = ((), 0)
ONE = ((), 1)
TOP = None


def atom(name):
    return ((ATOMS.get(name),), 0b10)


def is_const(b):
    return b is not None and not b[0]


def const_bit(v):
    return ONE if v else ZERO


@lru_cache(maxsize=None)
def _full(n):
    return (1 << (1 << n)) - 1


@lru_cache(maxsize=200000)
def _expand(tt, pos, n_u):
    """tt over len(pos) atoms -> tt over n_u atoms, pos[k] = index of atom k in the union."""
    out = 0
    for r in range(1 << n_u):
        rr = 0
        for k, p in enumerate(pos):
            if (r >> p) & 1:
                rr |= 1 << k
        if (tt >> rr) & 1:
            out |= 1 << r
    return out


@lru_cache(maxsize=200000)
def _reduce(n, tt):
    """drop vacuous atoms: returns (kept index tuple, tt')"""
    keep = []
    for k in range(n):
        # depends on atom k?
        dep = False
        for r in range(1 << n):
            if not (r >> k) & 1:
                if ((tt >> r) & 1) != ((tt >> (r | (1 << k))) & 1):
                    dep = True
                    break
        if dep:
            keep.append(k)
    if len(keep) == n:
        return tuple(keep), tt
    out = 0
    for r2 in range(1 << len(keep)):
        r = 0
        for j, k in enumerate(keep):
            if (r2 >> j) & 1:
                r |= 1 << k
        if (tt >> r) & 1:
            out |= 1 << r2
    return tuple(keep), out


def _canon(atoms, tt):
    keep, tt2 = _reduce(len(atoms), tt)
    if len(keep) != len(atoms):
        atoms = tuple(atoms[k] for k in keep)
    return (atoms, tt2)


def is_xs(a):
    return a is not None and a[1] == "xs"


def is_os(a):
    return a is not None and a[1] == "os"


def mk_nos(terms):
    """NOT(OR terms) = AND of the negated terms: the dual accumulate idiom (acc &= match; ... acc == !0)"""
    r = mk_os(terms)
    if r is None:
        return None
    if r[1] == "os":
        return (r[0], "nos", r[2])
    return bnot(r)


# Window mode: while a harness.Space (a fixed universe of <= 16 atoms) is active, a bit whose support exceeds K is
# kept as the integer bit set of its satisfying assignments over that universe: (universe ids, "sp", mask).  Exact.
ACTIVE = [None]


def _sp(mask):
    sp = ACTIVE[0]
    if mask == 0:
        return ZERO
    if mask == sp.full:
        return ONE
    return (sp.key, "sp", mask)


def _to_mask(b):
    sp = ACTIVE[0]
    if sp is None:
        return None
    if b[1] == "sp":
        return b[2] if b[0] == sp.key else None
    return sp.bit_mask(b)


def _sp_op(a, b, op):
    ma, mb = _to_mask(a), _to_mask(b)
    if ma is None or mb is None:
        return None
    return _sp(ma & mb if op == "and" else (ma | mb if op == "or" else ma ^ mb))


OS_MAX = 1024  # terms kept in an or-sum


def mk_os(terms):
    """disjunction of exact bits whose joint support exceeds K: (atoms, "os", frozenset of terms).  Exact; exists
    for the accumulate-then-test idiom (acc |= mismatch; ... acc == 0), where 'acc == 0' means every term is 0."""
    by_atoms = {}
    xs_terms = set()
    for t in terms:
        if t is None:
            return None
        if not t[0]:
            if t[1]:
                return ONE
            continue
        for u in (t[2] if t[1] == "os" else (t,)):
            if u[1] in ("nos", "sp", "os"):
                return None   # not a plain term: no exact or-sum form
            if u[1] == "xs":
                xs_terms.add(u)
            else:
                by_atoms[u[0]] = by_atoms.get(u[0], 0) | u[1]
    ts = set(xs_terms)
    for atoms, tt in by_atoms.items():
        c = _canon(atoms, tt)
        if not c[0]:
            if c[1]:
                return ONE
            continue
        ts.add(c)
    if not ts:
        return ZERO
    if len(ts) == 1:
        return next(iter(ts))
    if len(ts) > OS_MAX:
        return None
    atoms = tuple(sorted({x for t in ts for x in t[0]}))
    if len(atoms) <= K and not xs_terms:
        acc = ZERO
        for t in ts:
            acc = bor(acc, t)
        return acc
    return (atoms, "os", frozenset(ts))


@lru_cache(maxsize=100000)
def _anf(n, tt):
    """monomials (as bit masks over the n local atoms) of the algebraic normal form of tt"""
    rows = [(tt >> r) & 1 for r in range(1 << n)]
    for i in range(n):
        for r in range(1 << n):
            if (r >> i) & 1:
                rows[r] ^= rows[r ^ (1 << i)]
    return tuple(r for r in range(1 << n) if rows[r])


def anf_monomials(b):
    """canonical xor-of-monomials view of an exact bit: (frozenset of atom-id tuples, const)"""
    if b[1] == "xs":
        return b[2], b[3]
    atoms, tt = b
    mons = set()
    const = 0
    for m in _anf(len(atoms), tt):
        if m == 0:
            const ^= 1
        else:
            mons.add(tuple(atoms[k] for k in range(len(atoms)) if (m >> k) & 1))
    return frozenset(mons), const


def mk_xs(mons, const):
    """xor of monomials (+ constant): the canonical form of bits whose support exceeds K"""
    mons = frozenset(mons)
    atoms = tuple(sorted({x for m in mons for x in m}))
    if len(atoms) <= K:
        # small again: back to the truth-table form
        tt = 0
        for r in range(1 << len(atoms)):
            v = const
            for m in mons:
                if all((r >> atoms.index(x)) & 1 for x in m):
                    v ^= 1
            if v:
                tt |= 1 << r
        return _canon(atoms, tt)
    return (atoms, "xs", mons, const)


def xs_parts(a):
    return anf_monomials(a)


def bnot(a):
    if a is None:
        return None
    if a[1] == "xs":
        return (a[0], "xs", a[2], 1 - a[3])
    if a[1] in ("os", "nos"):
        if ACTIVE[0] is not None:
            m = _to_mask(a)
            return None if m is None else _sp(m ^ ACTIVE[0].full)
        return (a[0], "nos" if a[1] == "os" else "os", a[2])
    if a[1] == "sp":
        return _sp(a[2] ^ ACTIVE[0].full) if ACTIVE[0] is not None and ACTIVE[0].key == a[0] else None
    return (a[0], a[1] ^ _full(len(a[0])))


def _merge(a, b):
    """union support, expanded tts; None if too large"""
    if a[1] in ("xs", "os", "nos", "sp") or b[1] in ("xs", "os", "nos", "sp"):
        return None
    aa, ab = a[0], b[0]
    if aa == ab:
        return aa, a[1], b[1]
    u = tuple(sorted(set(aa) | set(ab)))
    if len(u) > K:
        return None
    idx = {x: i for i, x in enumerate(u)}
    ta = _expand(a[1], tuple(idx[x] for x in aa), len(u))
    tb = _expand(b[1], tuple(idx[x] for x in ab), len(u))
    return u, ta, tb


def band(a, b):
    if a is ZERO or b is ZERO or a == ZERO or b == ZERO:
        return ZERO
    if a is None or b is None:
        if a is not None and a == ONE:
            return b
        if b is not None and b == ONE:
            return a
        return None
    if a == ONE:
        return b
    if b == ONE:
        return a
    if a == b:
        return a
    m = _merge(a, b)
    if m is None:
        if ACTIVE[0] is not None:
            return _sp_op(a, b, "and")
        if a[1] == "os" and b[1] not in ("os", "nos"):
            return mk_os([band(t, b) for t in a[2]])
        if b[1] == "os" and a[1] not in ("os", "nos"):
            return mk_os([band(a, t) for t in b[2]])
        if a[1] != "os" and b[1] != "os":
            # conjunction kept as "no negated conjunct is 1"
            ta = a[2] if a[1] == "nos" else (bnot(a),)
            tb = b[2] if b[1] == "nos" else (bnot(b),)
            return mk_nos(list(ta) + list(tb))
        return None
    return _canon(m[0], m[1] & m[2])


def bor(a, b):
    if (a is not None and a == ONE) or (b is not None and b == ONE):
        return ONE
    if a is None or b is None:
        if a is not None and a == ZERO:
            return b
        if b is not None and b == ZERO:
            return a
        return None
    if a == ZERO:
        return b
    if b == ZERO:
        return a
    if a == b:
        return a
    m = _merge(a, b)
    if m is None:
        if ACTIVE[0] is not None:
            return _sp_op(a, b, "or")
        if a[1] == "nos" or b[1] == "nos":
            return None
        return mk_os([a, b])
    return _canon(m[0], m[1] | m[2])


def bxor(a, b):
    if a is None or b is None:
        if a is not None and a == ZERO:
            return b
        if b is not None and b == ZERO:
            return a
        return None
    if a == ZERO:
        return b
    if b == ZERO:
        return a
    if a == b:
        return ZERO
    if a == ONE:
        return bnot(b)
    if b == ONE:
        return bnot(a)
    m = _merge(a, b)
    if m is None:
        if ACTIVE[0] is not None:
            return _sp_op(a, b, "xor")
        if a[1] in ("os", "nos", "sp") or b[1] in ("os", "nos", "sp"):
            return None
        # keep the sum symbolic: xor-sum of small functions (exact)
        ta, ca = xs_parts(a)
        tb, cb = xs_parts(b)
        return mk_xs(ta ^ tb, ca ^ cb)
    return _canon(m[0], m[1] ^ m[2])


def bite(c, a, b):
    """if c then a else b"""
    if c is not None:
        if c == ONE:
            return a
        if c == ZERO:
            return b
    if a is not None and b is not None and a == b:
        return a
    if c is None:
        return None
    return bor(band(c, a), band(bnot(c), b))


def bmaj(a, b, c):
    return bor(bor(band(a, b), band(a, c)), band(b, c))


def bits_of_int(v, width):
    return [ONE if (v >> i) & 1 else ZERO for i in range(width)]


def describe(b):
    """human readable form of a bit function"""
    if b is None:
        return "TOP"
    if b[1] == "sp":
        return "SET{%d assignments of the window}" % bin(b[2]).count("1")
    if b[1] in ("os", "nos"):
        ts = sorted(describe(t) for t in b[2])
        return ("!" if b[1] == "nos" else "") + "OR{" + ", ".join(ts[:6]) + (", ..%d terms" % len(ts) if len(ts) > 6 else "") + "}"
    if b[1] == "xs":
        ms = sorted("&".join(ATOMS.name(x) for x in m) for m in b[2])
        return ("!" if b[3] else "") + "XOR{" + ", ".join(ms[:6]) + (", ..%d terms" % len(ms) if len(ms) > 6 else "") + "}"
    atoms, tt = b
    if not atoms:
        return str(tt)
    names = [ATOMS.name(x) for x in atoms]
    n = len(atoms)
    if n == 1:
        return names[0] if tt == 0b10 else "!" + names[0]
    # try xor / and / or of literals
    rows = [(tt >> r) & 1 for r in range(1 << n)]
    par = [bin(r).count("1") & 1 for r in range(1 << n)]
    if rows == par:
        return "(" + " ^ ".join(names) + ")"
    if rows == [1 - x for x in par]:
        return "!(" + " ^ ".join(names) + ")"
    return "f[%s](%s)" % (format(tt, "0%db" % (1 << n)), ",".join(names))


def eval_bit(b, assignment):
    """assignment: dict atom id -> 0/1"""
    if b[1] == "sp":
        r = 0
        for j, a in enumerate(b[0]):
            if assignment.get(a, 0):
                r |= 1 << j
        return (b[2] >> r) & 1
    if b[1] == "os":
        return 1 if any(eval_bit(t, assignment) for t in b[2]) else 0
    if b[1] == "nos":
        return 0 if any(eval_bit(t, assignment) for t in b[2]) else 1
    if b[1] == "xs":
        v = b[3]
        for m in b[2]:
            if all(assignment.get(x, 0) for x in m):
                v ^= 1
        return v
    atoms, tt = b
    r = 0
    for k, x in enumerate(atoms):
        if assignment.get(x, 0):
            r |= 1 << k
    return (tt >> r) & 1


def restrict(b, asg):
    """substitute constants for some atoms (asg: atom id -> 0/1)"""
    if b is None or not b[0]:
        return b
    if b[1] == "sp":
        sp = ACTIVE[0]
        if sp is None or sp.key != b[0]:
            return None
        m = b[2]
        for a, v in asg.items():
            if a in sp.var:
                j = sp.key.index(a)
                hi = m & sp.var[a]
                lo = m & (sp.full ^ sp.var[a])
                half = (hi | (hi >> (1 << j))) if v else (lo | (lo << (1 << j)))
                m = half
        return _sp(m)
    if b[1] == "os":
        return mk_os([restrict(t, asg) for t in b[2]])
    if b[1] == "nos":
        return mk_nos([restrict(t, asg) for t in b[2]])
    if b[1] == "xs":
        mons = {}
        const = b[3]
        for m in b[2]:
            if any(x in asg and not asg[x] for x in m):
                continue
            m2 = tuple(x for x in m if x not in asg)
            if not m2:
                const ^= 1
            else:
                mons[m2] = mons.get(m2, 0) ^ 1
        return mk_xs([m for m, c in mons.items() if c], const)
    atoms, tt = b
    if not any(x in asg for x in atoms):
        return b
    keep = [k for k, x in enumerate(atoms) if x not in asg]
    out = 0
    for r2 in range(1 << len(keep)):
        r = 0
        for j, k in enumerate(keep):
            if (r2 >> j) & 1:
                r |= 1 << k
        for k, x in enumerate(atoms):
            if x in asg and asg[x]:
                r |= 1 << k
        if (tt >> r) & 1:
            out |= 1 << r2
    return _canon(tuple(atoms[k] for k in keep), out)


def sat_assignment(b):
    """some assignment (dict atom->0/1) making b true, or None"""
    if b is None:
        return None
    if b[1] == "sp":
        if b[2] == 0:
            return None
        r = (b[2] & -b[2]).bit_length() - 1
        return {a: (r >> j) & 1 for j, a in enumerate(b[0])}
    if b[1] == "nos":
        for c in ({}, {x: 1 for x in b[0]}):
            if eval_bit(b, c):
                return {x: c.get(x, 0) for x in b[0]}
        return None
    if b[1] == "os":
        for t in b[2]:
            r = sat_assignment(t)
            if r is not None:
                return {x: r.get(x, 0) for x in b[0]}
        return None
    if b[1] == "xs":
        cands = [{}] + [{x: 1 for x in m} for m in sorted(b[2], key=len)[:64]]
        for c in cands:
            if eval_bit(b, c):
                return {x: c.get(x, 0) for x in b[0]}
        return None
    atoms, tt = b
    if tt == 0:
        return None
    r = (tt & -tt).bit_length() - 1
    return {x: (r >> k) & 1 for k, x in enumerate(atoms)}


def diff_witness(a, b):
    """assignment on which exact bits a and b differ (or None if equal / not exact)"""
    if a is None or b is None:
        return None
    return sat_assignment(bxor(a, b))
