"""Specifications: expected output bit functions, transcribed from the property statements.
All functions return a list of 64*words bit values (bits at positions >= 2^n are ZERO)."""
from . import bits as B
from .bits import ZERO, ONE
from .lutmodel import table_words


def _tab(n, f):
    total = 64 * table_words(n)
    return [f(p) if p < (1 << n) else ZERO for p in range(total)]


def inp(name):
    return lambda p: B.atom("%s[%d]" % (name, p))


def identity(n, a="a"):
    return _tab(n, inp(a))


def flip(n, i, a="a"):
    f = inp(a)
    return _tab(n, lambda p: f(p ^ (1 << i)))


def swapbits(p, i, j):
    bi, bj = (p >> i) & 1, (p >> j) & 1
    if bi != bj:
        p ^= (1 << i) | (1 << j)
    return p


def swap(n, i, j, a="a"):
    f = inp(a)
    return _tab(n, lambda p: f(swapbits(p, i, j)))


def cofactor0(n, i, a="a"):
    f = inp(a)
    return _tab(n, lambda p: f(p & ~(1 << i)))


def cofactor1(n, i, a="a"):
    f = inp(a)
    return _tab(n, lambda p: f(p | (1 << i)))


def from_cofactors(n, i, c0="c0", c1="c1"):
    f0, f1 = inp(c0), inp(c1)
    return _tab(n, lambda p: f1(p) if (p >> i) & 1 else f0(p))


def bnot(n, a="a"):
    f = inp(a)
    return _tab(n, lambda p: B.bnot(f(p)))


def binop(n, op, a="a", b="b"):
    fa, fb = inp(a), inp(b)
    g = {"and": B.band, "or": B.bor, "xor": B.bxor}[op]
    return _tab(n, lambda p: g(fa(p), fb(p)))


def const(n, v):
    return _tab(n, lambda p: ONE if v else ZERO)


def nth_var(n, i):
    return _tab(n, lambda p: ONE if (p >> i) & 1 else ZERO)


def symmetric_atoms(n, name="cv"):
    return _tab(n, lambda p: B.atom("%s[%d]" % (name, bin(p).count("1"))))


def symmetric_const(n, cv):
    return _tab(n, lambda p: ONE if (cv >> bin(p).count("1")) & 1 else ZERO)


def parity(n):
    return _tab(n, lambda p: ONE if bin(p).count("1") & 1 else ZERO)


def equals(n, k):
    return _tab(n, lambda p: ONE if bin(p).count("1") == k else ZERO)


def threshold(n, k):
    return _tab(n, lambda p: ONE if bin(p).count("1") >= k else ZERO)


def majority(n):
    return threshold(n, (n + 1) // 2)
