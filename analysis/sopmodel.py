"""Fixed-length symbolic Sop / Esop / Soes containers with opaque element predicates.

A container is {num_vars: usize, cubes: Vec<Elem>}.  For the reduction / concatenation /
tabulation rules the elements are symbolic cubes named c0, c1, ... and the element methods
value / is_zero / is_one / implies / eq are *opaque predicates* (fresh atom per (method,
element(s), argument)): the rules then decide what the container code does with them.
"""
from . import bits as B
from .absint import W, CS, Agg, Arr, Ptr, Opaque, TopV, State, Interp, Undecided, Outcome, wconst, wbool, watoms, new_cell
from .cubemodel import CUBE, ECUBE

SOP, ESOP, SOES = "sop::sop::Sop", "sop::esop::Esop", "sop::soes::Soes"


class Container(object):
    def __init__(self, facts, adt_path):
        self.facts = facts
        self.adt = adt_path
        adt = facts.adts.get(adt_path)
        if adt is None:
            raise KeyError("anchor-missing: %s" % adt_path)
        fs = adt["variants"][0]["fields"]
        self.nv = [i for i, f in enumerate(fs) if f["ty"]["k"] == "uint"]
        self.cv = [i for i, f in enumerate(fs) if f["ty"]["k"] == "adt" and "Vec" in f["ty"]["path"]]
        if len(fs) != 2 or len(self.nv) != 1 or len(self.cv) != 1:
            raise Undecided("%s changed shape" % adt_path)
        self.nv, self.cv = self.nv[0], self.cv[0]
        self.elem = fs[self.cv]["ty"]["args"][0]["path"]
        self.methods = facts.inherent_methods(adt_path)
        self.private = all(f["vis"] != "pub" for f in fs)

    def method(self, name):
        b = self.methods.get(name)
        if b is None:
            raise KeyError("anchor-missing: %s::%s" % (self.adt, name))
        return b

    def elem_value(self, name):
        adt = self.facts.adts[self.elem]
        fs = []
        for k, f in enumerate(adt["variants"][0]["fields"]):
            w = 1 if f["ty"]["k"] == "bool" else f["ty"]["w"]
            fs.append(watoms(w, "%s.f%d" % (name, k)))
        return Agg("adt", self.elem, 0, fs)

    def mk(self, st, n, names):
        cell = new_cell()
        elems = [self.elem_value(x) for x in names]
        st.mem[cell] = Arr(elems)
        f = [None, None]
        f[self.nv] = wconst(64, n)
        f[self.cv] = Ptr(cell, (), (0, len(elems)), "vec")
        return Agg("adt", self.adt, 0, f)

    def cubes(self, it, st, v):
        return list(it.slice_elems(st, v.fields[self.cv]))

    def num_vars(self, v):
        return v.fields[self.nv]


def elem_name(v):
    """name of a symbolic element from its first atom (c3.f0[0] -> c3)"""
    if isinstance(v, Agg):
        for f in v.fields:
            if isinstance(f, W) and f.val is None:
                for b in f.bits:
                    if b is not None and b[0]:
                        return B.ATOMS.name(b[0][0]).split(".")[0]
    return None


def deref(it, st, v):
    return it.read_ptr(st, v) if isinstance(v, Ptr) else v


def install_stubs(it, facts, elem_adt):
    """opaque predicates for the element type's methods"""
    ms = facts.inherent_methods(elem_adt)

    def pred(label, nargs):
        def f(interp, fr, args, st, pc, t):
            names = []
            for a in args[:nargs]:
                v = deref(interp, st, a)
                if isinstance(v, Agg) and v.key == elem_adt:
                    nm = elem_name(v)
                    if nm is None:
                        nm = "const(%s)" % ",".join(str(x.val) for x in v.fields)
                    names.append(nm)
                elif isinstance(v, W):
                    names.append(str(v.val) if v.val is not None else "m")
                else:
                    names.append("?")
            return [Outcome("return", st, pc, W(1, bits=[B.atom("%s(%s)" % (label, ",".join(names)))]))]
        return f
    for name, nargs in (("value", 2), ("is_zero", 1), ("is_one", 1), ("implies", 2), ("intersects", 2)):
        if name in ms:
            it.opaque_fns[ms[name]["key"]] = pred(name, nargs)
    for b, sty, tr in facts.trait_impl_methods("std::cmp::PartialEq"):
        if sty.get("path") == elem_adt and b["name"] == "eq":
            def eqf(interp, fr, args, st, pc, t):
                x, y = deref(interp, st, args[0]), deref(interp, st, args[1])
                nx, ny = elem_name(x), elem_name(y)
                if nx is not None and ny is not None:
                    return [Outcome("return", st, pc, wbool(nx == ny))]
                return [Outcome("return", st, pc, W(1, bits=[B.atom("eq(%s,%s)" % (nx, ny))]))]
            it.opaque_fns[b["key"]] = eqf


def val_atom(name, m):
    return B.atom("value(%s,%s)" % (name, m))
