"""Classification of the public API of Lut / StaticLut: what each non-table parameter means.
One line per public method (DESIGN 2.3, rule G1).  A public method that is not listed is reported
as `unclassified-api` (UNDECIDED) by the rules that enumerate the API.

classes: n (number of variables, dyn constructors only), var (variable index, valid < n),
var_adj (valid < n-1), bit (assignment index, valid < 2^n), bool, k (count, any value),
cv (count mask, any value), blocks (&[u64], valid length table_size(n)), str, luts (&[Self])
"""
from . import bits as B
from .absint import W, Agg, Arr, Ptr, Opaque, TopV, wconst, wbool, watoms, new_cell
from .lutmodel import sym_words, table_words, usize

STATIC = {
    "num_vars": [], "num_bits": [], "num_blocks": [],
    "one": [], "zero": [], "nth_var": ["var"], "parity": [], "majority": [],
    "threshold": ["k"], "equals": ["k"], "symmetric": ["cv"], "random": [],
    "value": ["bit"], "get_bit": ["bit"], "set_value": ["bit", "bool"], "set_bit": ["bit"], "unset_bit": ["bit"],
    "not_inplace": [], "and_inplace": [], "or_inplace": [], "xor_inplace": [],
    "flip_inplace": ["var"], "swap_inplace": ["var", "var"], "swap_adjacent_inplace": ["var_adj"],
    "not": [], "and": [], "or": [], "xor": [],
    "flip": ["var"], "swap": ["var", "var"], "swap_adjacent": ["var_adj"],
    "cofactors": ["var"], "from_cofactors": ["var"],
    "blocks": [], "from_blocks": ["blocks"],
    "p_canonization": [], "n_canonization": [], "npn_canonization": [],
    "top_decomposition": ["var"], "is_pos_unate": ["var"], "is_neg_unate": ["var"],
    "all_functions": [], "bdd_complexity": ["luts"],
    "to_hex_string": [], "to_bin_string": [], "from_hex_string": ["str"],
}
# dynamic Lut: associated functions without a table parameter take num_vars first
DYN_LEADING_N = {"one", "zero", "nth_var", "parity", "majority", "threshold", "equals", "symmetric", "random",
                 "from_blocks", "all_functions", "from_hex_string"}


def classes(kind, name):
    c = STATIC.get(name)
    if c is None:
        return None
    if kind == "dyn" and name in DYN_LEADING_N:
        return ["n"] + c
    return list(c)


def valid_values(cls, n, tier="quick"):
    """concrete partition of the valid values of a parameter class (python ints / markers)"""
    if cls == "n":
        return [n]
    if cls == "var":
        return list(range(n))
    if cls == "var_adj":
        return list(range(max(n - 1, 0)))
    if cls == "bit":
        if n <= 5:
            return list(range(1 << n))
        # boundary + spread sample of assignment indices for larger tables (each is its own obligation)
        top = (1 << n) - 1
        s = {0, 1, 63, 64, 65, top, top - 1, top >> 1, (top >> 1) + 1}
        return sorted(x for x in s if 0 <= x <= top)
    if cls == "bool":
        return [0, 1]
    if cls == "k":
        return list(range(n + 3)) + [63, 64, 65, (1 << 64) - 1]      # counts beyond the shift width are valid (never reached: constant)
    if cls == "cv":
        return ["sym"]
    if cls == "str":
        # well-formed length: max(1, 2^n/4) hex digits (property C09); content symbolic
        return [max(1, (1 << n) // 4)]
    if cls in ("blocks", "luts"):
        return ["sym"]
    raise KeyError(cls)


def invalid_values(cls, n):
    """out-of-range witnesses for G1/C17 (the statement: n..=n+70 plus usize::MAX)"""
    M = (1 << 64) - 1
    if cls == "var":
        return sorted(set([n, n + 1, 5, 6, 7, 31, 32, 63, 64, 65, n + 70, M]) - set(range(n)))
    if cls == "var_adj":
        return sorted(set([n - 1, n, n + 1, 5, 6, 31, 32, 63, 64, 65, n + 70, M]) - set(range(max(n - 1, 0))) - {-1})
    if cls == "bit":
        b = 1 << n
        return sorted(set([b, b + 1, 2 * b, 63, 64, 65, 127, 128, b + 70, 1 << 32, 1 << 63, M]) - set(range(b)))
    return []


def build_value(cls, v, n, st, name="p"):
    """abstract value for a parameter of class cls with partition value v"""
    if cls in ("n", "var", "var_adj", "bit", "k"):
        return usize(v)
    if cls == "bool":
        return wbool(v)
    if cls == "cv":
        return watoms(64, "cv")
    if cls == "blocks":
        cell = new_cell()
        words = sym_words(n, "blk")
        st.mem[cell] = Arr(words)
        return Ptr(cell, (), (0, len(words)))
    if cls == "str":
        if v == "sym":
            return Opaque("str", (None, W(64, bits=[None] * 64)))
        return Opaque("str", (None, usize(v)))
    raise KeyError(cls)
