"""Real-element windows for the two-level forms (Sop / Esop / Soes).

The operands are containers of a fixed small number of *real* symbolic terms over a window of WN variables (one atom
per representation bit inside the window, 0 outside; cubes restricted to canonical ones).  The operator body is
interpreted once in window mode (exact feasibility and bit functions over the atom universe, `harness.Space`; no
ite-merging; the elements' own Ord / PartialEq / implies / products run in the interpreter; sort / dedup / retain are
semantic).  The resulting summary (paths x result terms as bit functions) is then *evaluated* on every canonical choice
of operands and compared with the denotation computed from the definition:
  - the result denotes the OR / AND / XOR / complement of the operands on all 2^WN assignments,
  - (Sop only) the result has no contradictory cube, no duplicate and no cube implying another.
Exact for the window: every refutation is a concrete pair of operands with the observed and the expected result.
"""
import itertools

from . import bits as B
from .absint import W, Agg, Arr, Ptr, State, Interp, Undecided, wconst, new_cell
from .bits import ZERO
from .harness import Space, eval_value, PROVED, REFUTED, UNDECIDED, where_of
from .cubemodel import arg_for


class ElemKind(object):
    """how a term is laid out and what it denotes; discovered from the ADT facts by field type"""

    def __init__(self, facts, elem_adt):
        adt = facts.adts[elem_adt]
        self.adt = elem_adt
        self.fts = [f["ty"] for f in adt["variants"][0]["fields"]]
        ks = [t_["k"] for t_ in self.fts]
        if ks == ["uint", "uint"]:
            self.kind = "cube"       # (pos, neg)
        elif sorted(ks) == ["bool", "uint"]:
            self.kind = "ecube"      # (vars, xnor) in either order
            self.vi, self.xi = ks.index("uint"), ks.index("bool")
        else:
            raise Undecided("term representation %s not recognised" % ks)

    def mk(self, nm, WN):
        fs = []
        for k, t_ in enumerate(self.fts):
            if t_["k"] == "bool":
                fs.append(W(1, bits=[B.atom("%s.f%d" % (nm, k))]))
            else:
                fs.append(W(t_["w"], bits=[B.atom("%s.f%d[%d]" % (nm, k, i_)) if i_ < WN else ZERO for i_ in range(t_["w"])]))
        return Agg("adt", self.adt, 0, fs)

    def atoms(self, nm, WN):
        out = []
        for k, t_ in enumerate(self.fts):
            if t_["k"] == "bool":
                out.append("%s.f%d" % (nm, k))
            else:
                out += ["%s.f%d[%d]" % (nm, k, i_) for i_ in range(WN)]
        return out

    def canon(self, nm, WN):
        if self.kind != "cube":
            return []
        return [W(1, bits=[B.bnot(B.band(B.atom("%s.f0[%d]" % (nm, i_)), B.atom("%s.f1[%d]" % (nm, i_))))]) for i_ in range(WN)]

    def values(self, WN):
        """all canonical term values as tuples of field values"""
        if self.kind == "cube":
            out = []
            for lits in itertools.product((0, 1, 2), repeat=WN):
                pos = sum((l_ == 1) << i_ for i_, l_ in enumerate(lits))
                neg = sum((l_ == 2) << i_ for i_, l_ in enumerate(lits))
                out.append((pos, neg))
            return out
        out = []
        for vars_ in range(1 << WN):
            for x in (0, 1):
                t_ = [None, None]
                t_[self.vi], t_[self.xi] = vars_, x
                out.append(tuple(t_))
        return out

    def named(self, nm, val, WN):
        d = {}
        for k, t_ in enumerate(self.fts):
            if t_["k"] == "bool":
                d["%s.f%d" % (nm, k)] = val[k]
            else:
                for i_ in range(WN):
                    d["%s.f%d[%d]" % (nm, k, i_)] = (val[k] >> i_) & 1
        return d

    def denote(self, val, m):
        if self.kind == "cube":
            pos, neg = val
            return (pos & ~m) == 0 and (neg & m) == 0 and (pos & neg) == 0
        return bool((bin(val[self.vi] & m).count("1") + val[self.xi]) & 1)

    def show(self, val):
        if self.kind == "cube":
            return "(pos=%d,neg=%d)" % val
        return "(vars=%d,xnor=%d)" % (val[self.vi], val[self.xi])


def window_op(chk, rule, facts, C, bd, label, lens, reduce_, op, WN=2, irredundant=False, sample=False, fixed=None):
    """lens: operand lengths, one per container argument of bd.  reduce_: 'or' | 'xor' (what the container denotes).
    op: 'or' | 'and' | 'xor' | 'not'.  fixed: per operand, a list of concrete term values placed before the symbolic
    terms (large operands: code paths that only run above a size threshold)."""
    fixed = fixed or [[] for _ in lens]
    key = "%s on real terms %s, window of %d variables" % (label, tuple(lens), WN)
    if any(fixed):
        key += ", plus %s fixed terms" % "+".join(str(len(f_)) for f_ in fixed)
    ncases = 0
    try:
        E = ElemKind(facts, C.elem)
        it = Interp(facts, max_paths=20000, max_steps=12000000)     # needs 1.1M today
        it.prune = True
        it.cmp_split = True
        it.split_all = True
        st = State()
        groups = [["%s%d" % ("pqr"[g], j) for j in range(L)] for g, L in enumerate(lens)]
        names = [x for g in groups for x in g]
        atoms = [a for nm in names for a in E.atoms(nm, WN)]
        canon = tuple(c for nm in names for c in E.canon(nm, WN))

        def conc(val):
            return Agg("adt", E.adt, 0, [wconst(1 if t_["k"] == "bool" else t_["w"], v_) for t_, v_ in zip(E.fts, val)])

        def cont(ns, fx):
            cell = new_cell()
            elems = [conc(v_) for v_ in fx] + [E.mk(x, WN) for x in ns]
            st.mem[cell] = Arr(elems)
            f = [None, None]
            f[C.nv] = wconst(64, WN)
            f[C.cv] = Ptr(cell, (), (0, len(elems)), "vec")
            return Agg("adt", C.adt, 0, f)
        args = [arg_for(ty, cont(g, fx), st) for ty, g, fx in zip(bd["sig"]["inputs"], groups, fixed)]
        it.space = Space(atoms, canon)
        with it.space:
            outs = it.call_body(bd, args, st, {}, pc=canon)
        owner = {}
        for idx_, o in enumerate(outs):
            m_ = it.space.pc_mask(o.pc)
            if m_ is None:
                raise Undecided("path condition with top")
            while m_:
                low = m_ & -m_
                owner.setdefault(low.bit_length() - 1, []).append(idx_)
                m_ ^= low
        red = (lambda xs: any(xs)) if reduce_ == "or" else (lambda xs: bool(sum(xs) & 1))
        vals = E.values(WN)
        v, d = PROVED, ""
        for choice in itertools.product(vals, repeat=len(names)):
            named = {}
            for nm, val in zip(names, choice):
                named.update(E.named(nm, val, WN))
            asg = {B.ATOMS.get(k_): v_ for k_, v_ in named.items()}
            enabled = [outs[x_] for x_ in owner.get(it.space.index(named), [])]
            ops_, pos_ = [], 0
            for g, fx in zip(groups, fixed):
                ops_.append(tuple(fx) + tuple(choice[pos_:pos_ + len(g)]))
                pos_ += len(g)
            desc = ", ".join("%s = [%s]" % ("abc"[k_], " ".join(E.show(x) for x in (o_ if len(o_) <= 4 else o_[-2:])) + (" after %d fixed terms" % (len(o_) - 2) if len(o_) > 4 else "")) for k_, o_ in enumerate(ops_))
            if len(enabled) != 1:
                v, d = UNDECIDED, "%d paths enabled for %s" % (len(enabled), desc)
                break
            o = enabled[0]
            if o.kind != "return":
                v, d = REFUTED, "panics (%s) for %s" % (o.info.get("msg"), desc)
                break
            res = []
            for c in C.cubes(it, o.state, o.value):
                ev = eval_value(c if not isinstance(c, Ptr) else it.read_ptr(o.state, c), asg)
                if ev is None:
                    raise Undecided("result term with top")
                res.append(tuple(ev[2]))
            ncases += 1
            fs = [[red([E.denote(c, m) for c in o_]) for m in range(1 << WN)] for o_ in ops_]
            if op == "not":
                want = [not x for x in fs[0]]
            elif op == "or":
                want = [x or y for x, y in zip(*fs)]
            elif op == "and":
                want = [x and y for x, y in zip(*fs)]
            else:
                want = [x != y for x, y in zip(*fs)]
            got = [red([E.denote(c, m) for c in res]) for m in range(1 << WN)]
            rs = "[%s]" % " ".join(E.show(x) for x in res)
            if got != want:
                m = [k_ for k_ in range(1 << WN) if got[k_] != want[k_]][0]
                v, d = REFUTED, "%s: the result %s is %d on assignment %d, the %s of the operands is %d" % (desc, rs, got[m], m, op.upper(), want[m])
                break
            if irredundant:
                bad = None
                for x_, cx in enumerate(res):
                    if cx[0] & cx[1]:
                        bad = "contains the contradictory cube %s" % E.show(cx)
                    for y_, cy in enumerate(res):
                        if x_ < y_ and cx == cy:
                            bad = "contains the cube %s twice" % E.show(cx)
                        elif x_ != y_ and cx != cy and (cx[0] | cy[0]) == cx[0] and (cx[1] | cy[1]) == cx[1]:
                            bad = "keeps the cube %s although it implies %s" % (E.show(cx), E.show(cy))
                if bad:
                    v, d = REFUTED, "%s: the result %s %s" % (desc, rs, bad)
                    break
        if v == PROVED and ncases != len(vals) ** len(names):
            v, d = UNDECIDED, "only %d cases" % ncases
    except Undecided as ex:
        v, d = UNDECIDED, ex.cause
    chk.add(rule, key, v, d, where=where_of(bd), sample=dict(obligation=key, cases=ncases if v == PROVED else None, verdict=v) if sample else None)
    return v


STEPS_SEEN = []


def window_to_lut(chk, rule, facts, C, bd, label, n, varset, L, reduce_, lut_words, only_high=False):
    """Conversion of a container of L real terms (symbolic only on the variables in varset, e.g. {0, 6, 7} of n = 8:
    low and block-selecting variables) to a Lut: every table bit m of the result, as a function of the term atoms,
    equals the OR / XOR of the term denotations at m, and bits >= 2^n are 0.  Window mode without path splitting
    (joins are merged: bit functions are integer bit sets over the atom universe, hence exact)."""
    key = "%s n=%d, %d real term(s) over variables %s" % (label, n, L, sorted(varset))
    try:
        E = ElemKind(facts, C.elem)
        it = Interp(facts, max_paths=4096, max_steps=300000)    # 6x what the conversions need today (about 47 000 steps at n = 10)
        it.prune = True
        st = State()
        names = ["t%d" % j for j in range(L)]
        vs = sorted(varset)

        def mk(nm):
            fs = []
            for k, t_ in enumerate(E.fts):
                if t_["k"] == "bool":
                    fs.append(W(1, bits=[B.atom("%s.f%d" % (nm, k))]))
                else:
                    fs.append(W(t_["w"], bits=[B.atom("%s.f%d[%d]" % (nm, k, i_)) if i_ in varset else ZERO for i_ in range(t_["w"])]))
            return Agg("adt", E.adt, 0, fs)
        atoms, canon = [], []
        for nm in names:
            for k, t_ in enumerate(E.fts):
                if t_["k"] == "bool":
                    atoms.append("%s.f%d" % (nm, k))
                else:
                    atoms += ["%s.f%d[%d]" % (nm, k, i_) for i_ in vs]
            if E.kind == "cube":
                canon += [W(1, bits=[B.bnot(B.band(B.atom("%s.f0[%d]" % (nm, i_)), B.atom("%s.f1[%d]" % (nm, i_))))]) for i_ in vs]
        cell = new_cell()
        st.mem[cell] = Arr([mk(x) for x in names])
        f = [None, None]
        f[C.nv] = wconst(64, n)
        f[C.cv] = Ptr(cell, (), (0, L), "vec")
        space = Space(atoms, canon)
        it.space = space
        with space:
            outs = it.call_body(bd, [arg_for(bd["sig"]["inputs"][0], Agg("adt", C.adt, 0, f), st)], st, {}, pc=tuple(canon))
            v, d = PROVED, ""
            covered = 0
            for o in outs:
                pm = space.pc_mask(o.pc)
                if pm is None:
                    raise Undecided("path condition with top")
                if not pm:
                    continue
                if o.kind != "return":
                    v, d = REFUTED, "panics (%s) for some terms over the window" % o.info.get("msg")
                    break
                covered |= pm
                words = lut_words(it, o.state, o.value)
                bits = []
                for w_ in words:
                    bits.extend(w_.all_bits())
                # specification masks
                full = space.full

                def am(name):
                    return space.var[B.ATOMS.get(name)]
                for m in range(len(bits)):
                    if only_high and m < (1 << n):
                        continue        # representation invariant only: the denotation is another property's business
                    got = space.bit_mask(bits[m]) if bits[m] is not None else None
                    if got is None:
                        raise Undecided("table bit %d not exact" % m)
                    if m >= (1 << n):
                        want = 0
                    else:
                        acc = 0
                        for nm in names:
                            if E.kind == "cube":
                                t_m = full
                                for i_ in vs:
                                    pos_, neg_ = am("%s.f0[%d]" % (nm, i_)), am("%s.f1[%d]" % (nm, i_))
                                    t_m &= (full ^ pos_) if not (m >> i_) & 1 else (full ^ neg_)
                            else:
                                t_m = am("%s.f%d" % (nm, E.xi))
                                for i_ in vs:
                                    if (m >> i_) & 1:
                                        t_m ^= am("%s.f%d[%d]" % (nm, E.vi, i_))
                            acc = (acc | t_m) if reduce_ == "or" else (acc ^ t_m)
                        want = acc
                    diff = (got ^ want) & pm
                    if diff:
                        r_ = (diff & -diff).bit_length() - 1
                        named = {a_: (r_ >> j) & 1 for j, a_ in enumerate(space.names)}
                        terms = []
                        for nm in names:
                            val = [None, None]
                            for k, t_ in enumerate(E.fts):
                                val[k] = named["%s.f%d" % (nm, k)] if t_["k"] == "bool" else sum(named["%s.f%d[%d]" % (nm, k, i_)] << i_ for i_ in vs)
                            terms.append(E.show(tuple(val)))
                        v, d = REFUTED, "for the terms [%s] the table has %d at assignment %d, the %s of the terms is %d" % (" ".join(terms), (got >> r_) & 1, m, reduce_.upper(), (want >> r_) & 1)
                        break
                if v != PROVED:
                    break
            STEPS_SEEN.append(it.steps)
            if v == PROVED and covered != space.base:
                v, d = UNDECIDED, "paths do not cover every choice of terms"
    except Undecided as ex:
        v, d = UNDECIDED, ex.cause
    chk.add(rule, key, v, d, where=where_of(bd))
    return v


def to_lut_rules(chk, rule, facts, C, reduce_, tier, only_high=False):
    """conversions <Lut as From<&Container>> on real terms: n = 3, 7, 8 with low and block-selecting variables"""
    from .harness import Env
    env = Env(facts)
    KD = env.kinds["dyn"]
    found = 0
    for bd, sty, tr in facts.trait_impl_methods("std::convert::From"):
        if sty.get("path") != "lut::Lut" or len(tr["args"]) < 2:
            continue
        src = tr["args"][1]
        base = src["t"] if src["k"] == "ref" else src
        if base.get("path") != C.adt:
            continue
        found += 1
        label = "<Lut as %s>::from" % tr["s"]
        plans = [(3, {0, 1, 2}, 1), (3, {0, 2}, 2), (7, {0, 5, 6}, 1), (7, {1, 6}, 2), (8, {0, 6, 7}, 1), (8, {6, 7}, 2), (8, {5, 7}, 2)]
        if tier == "thorough":
            plans += [(9, {0, 7, 8}, 1), (9, {6, 7, 8}, 2), (10, {6, 8, 9}, 2)]
        for n, varset, L in plans:
            window_to_lut(chk, rule, facts, C, bd, label, n, varset, L, reduce_, lambda it, st, v: KD.words(it, st, v), only_high)
    return found


def window_value(chk, rule, facts, C, L, reduce_, WN=2):
    """value(m) of a container of L real terms over a window of WN variables, with a symbolic assignment m: equals the
    OR / XOR of the term denotations for every choice of terms (in any order - the list is not assumed sorted) and m."""
    b = C.methods.get("value")
    short = C.adt.split("::")[-1]
    key = "%s::value on %d real term(s), window of %d variables" % (short, L, WN)
    if b is None:
        chk.refuted(rule, "anchor-missing: %s::value" % short, "")
        return
    try:
        E = ElemKind(facts, C.elem)
        names = ["t%d" % j for j in range(L)]
        atoms = [a for nm in names for a in E.atoms(nm, WN)] + ["m[%d]" % i_ for i_ in range(WN)]
        canon = tuple(c for nm in names for c in E.canon(nm, WN))
        space = Space(atoms, canon)
        it = Interp(facts, max_paths=8192, max_steps=200000)     # needs 4 100 today
        it.prune = True
        it.cmp_split = True
        it.space = space
        st = State()
        cell = new_cell()
        st.mem[cell] = Arr([E.mk(x, WN) for x in names])
        f = [None, None]
        f[C.nv] = wconst(64, WN)
        f[C.cv] = Ptr(cell, (), (0, L), "vec")
        m = W(64, bits=[B.atom("m[%d]" % i_) if i_ < WN else ZERO for i_ in range(64)])
        with space:
            outs = it.call_body(b, [arg_for(b["sig"]["inputs"][0], Agg("adt", C.adt, 0, f), st), m], st, {}, pc=canon)
        full = space.full

        def am(name):
            return space.var[B.ATOMS.get(name)]
        want = 0
        for nm in names:
            if E.kind == "cube":
                t_m = full
                for i_ in range(WN):
                    mi = am("m[%d]" % i_)
                    # positive literal needs m_i, negative literal needs not m_i
                    t_m &= (full ^ am("%s.f0[%d]" % (nm, i_))) | mi
                    t_m &= (full ^ am("%s.f1[%d]" % (nm, i_))) | (full ^ mi)
            else:
                t_m = am("%s.f%d" % (nm, E.xi))
                for i_ in range(WN):
                    t_m ^= am("%s.f%d[%d]" % (nm, E.vi, i_)) & am("m[%d]" % i_)
            want = (want | t_m) if reduce_ == "or" else (want ^ t_m)
        v, d = PROVED, ""
        covered = 0
        for o in outs:
            pm = space.pc_mask(o.pc)
            if pm is None:
                raise Undecided("path condition with top")
            if not pm:
                continue
            if o.kind != "return":
                v, d = REFUTED, "panics (%s)" % o.info.get("msg")
                break
            covered |= pm
            got = space.mask(o.value)
            if got is None:
                raise Undecided("result not exact")
            diff = (got ^ want) & pm
            if diff:
                r_ = (diff & -diff).bit_length() - 1
                named = {a_: (r_ >> j) & 1 for j, a_ in enumerate(space.names)}
                terms = []
                for nm in names:
                    val = [None, None]
                    for k, t_ in enumerate(E.fts):
                        val[k] = named["%s.f%d" % (nm, k)] if t_["k"] == "bool" else sum(named["%s.f%d[%d]" % (nm, k, i_)] << i_ for i_ in range(WN))
                    terms.append(E.show(tuple(val)))
                mv = sum(named["m[%d]" % i_] << i_ for i_ in range(WN))
                v, d = REFUTED, "for the terms [%s] value(%d) returns %d, the %s of the terms is %d" % (" ".join(terms), mv, (got >> r_) & 1, reduce_.upper(), (want >> r_) & 1)
                break
        if v == PROVED and covered != space.base:
            v, d = UNDECIDED, "paths do not cover every choice"
    except Undecided as ex:
        v, d = UNDECIDED, ex.cause
    chk.add(rule, key, v, d, where=where_of(b))


def op_forms(facts, trait, adt):
    return [(bd, "<%s as %s>::%s" % (sty["s"], tr["s"], bd["name"])) for bd, sty, tr in facts.trait_impl_methods(trait)
            if (sty["t"] if sty["k"] == "ref" else sty).get("path") == adt]


def pick_forms(forms, tier):
    """the forms forward to one another: quick analyses the all-references one (or the first), thorough all"""
    if tier == "thorough":
        return forms
    refs = [f for f in forms if all(t_["k"] == "ref" for t_ in f[0]["sig"]["inputs"])]
    return refs[:1] or forms[:1]
