"""E6 - compile-fail witnesses (thorough tier): rustdoc doctests of /verif/witnesses against the
current /repo tree.  A compile_fail block that compiles means the type-level guarantee is gone."""
import os
import re
import shutil
import subprocess

from . import facts as F
from .report import PROVED, REFUTED, UNDECIDED

WDIR = os.path.join(F.VERIF, "witnesses")


def run(chk, prop, ids):
    work = os.path.join(F.CACHE, "witnesses-crate")
    os.makedirs(os.path.join(work, "src"), exist_ok=True)
    shutil.copy(os.path.join(WDIR, "src", "lib.rs"), os.path.join(work, "src", "lib.rs"))
    with open(os.path.join(work, "Cargo.toml"), "w") as fh:
        fh.write('[package]\nname = "volute-witnesses"\nversion = "0.0.0"\nedition = "2021"\n\n[workspace]\n\n[dependencies]\nvolute = { path = "%s" }\n' % F.REPO)
    lock = os.path.join(F.REPO, "Cargo.lock")
    if os.path.exists(lock):
        shutil.copy(lock, os.path.join(work, "Cargo.lock"))
    env = dict(os.environ, CARGO_NET_OFFLINE="true", CARGO_TARGET_DIR=os.path.join(F.CACHE, "target-witness"))
    p = subprocess.run(["cargo", "+nightly", "test", "--doc", "--offline"], cwd=work, env=env, stdout=subprocess.PIPE, stderr=subprocess.STDOUT, text=True)
    out = p.stdout
    results = {}
    for m in re.finditer(r"test src/lib\.rs - (W\d) \(line (\d+)\)( - compile fail)? \.\.\. (\w+)", out):
        results.setdefault(m.group(1), []).append((int(m.group(2)), bool(m.group(3)), m.group(4)))
    for w in ids:
        rs = results.get(w)
        if not rs:
            chk.undecided("witness", "%s %s" % (prop, w), "doctests did not run: %s" % out[-300:].replace("\n", " "))
            continue
        bad_cf = [l for l, cf, r in rs if cf and r != "ok"]
        # a compile_fail block that was rejected with another error code is still rejected
        compiled = [l for l in bad_cf if re.search(r"- %s \(line %d\) stdout ----\nTest compiled successfully" % (w, l), out)]
        if bad_cf and not compiled:
            chk.undecided("witness", "%s %s" % (prop, w), "rejected with a different error code than recorded (lib.rs line %s)" % bad_cf)
            continue
        bad_tw = [l for l, cf, r in rs if not cf and r != "ok"]
        if bad_tw:
            chk.undecided("witness", "%s %s" % (prop, w), "compiling twin failed (lib.rs line %s): the witness is not conclusive" % bad_tw)
        elif bad_cf:
            chk.refuted("witness", "%s %s" % (prop, w), "a program that must be rejected by the type checker compiles (witnesses/src/lib.rs line %s)" % bad_cf)
        else:
            chk.proved("witness", "%s %s" % (prop, w), "%d compile-fail blocks rejected with the expected error, twin compiles" % sum(1 for _, cf, _ in rs if cf))
