"""Readable rendering of the JSON MIR (debugging / reports)."""
import sys


def place_s(p):
    s = "_%d" % p["l"]
    for e in p["p"]:
        k = e["k"]
        if k == "deref":
            s = "(*%s)" % s
        elif k == "field":
            s = "%s.%d" % (s, e["i"])
        elif k == "index":
            s = "%s[_%d]" % (s, e["l"])
        elif k == "cindex":
            s = "%s[%s%d]" % (s, "-" if e["from_end"] else "", e["off"])
        elif k == "subslice":
            s = "%s[%d..%s%d]" % (s, e["from"], "-" if e["from_end"] else "", e["to"])
        elif k == "downcast":
            s = "(%s as v%d)" % (s, e["v"])
        else:
            s = "%s.<%s>" % (s, k)
    return s


def op_s(o):
    k = o["k"]
    if k in ("copy", "move"):
        return "%s %s" % (k, place_s(o["place"]))
    if k == "const":
        if "uneval" in o:
            u = o["uneval"]
            return "const %s%s" % (u["path"], "" if u["promoted"] is None else "::promoted[%d]" % u["promoted"])
        if "ct" in o:
            c = o["ct"]
            return "const %s" % (c.get("name") or c.get("v"))
        if o.get("fn"):
            return "fn %s" % o["ty"]["s"]
        v = o.get("val")
        return "const %s_%s" % (str(v)[:40], o["ty"]["s"])
    return k


def rv_s(rv):
    k = rv["k"]
    if k == "use":
        return op_s(rv["op"])
    if k == "ref":
        return "&%s%s" % ("mut " if rv["mut"] else "", place_s(rv["place"]))
    if k == "binop":
        return "%s(%s, %s)" % (rv["op"], op_s(rv["a"]), op_s(rv["b"]))
    if k == "unop":
        return "%s(%s)" % (rv["op"], op_s(rv["a"]))
    if k == "cast":
        return "%s as %s (%s)" % (op_s(rv["op"]), rv["ty"]["s"], rv["kind"])
    if k == "aggregate":
        a = rv["agg"]
        nm = a.get("path") or a["k"]
        if a["k"] == "adt":
            nm += "#v%d" % a["variant"]
        return "%s{%s}" % (nm, ", ".join(op_s(o) for o in rv["ops"]))
    if k == "discr":
        return "discriminant(%s)" % place_s(rv["place"])
    if k == "repeat":
        return "[%s; %s]" % (op_s(rv["op"]), rv["count"].get("v", rv["count"].get("name")))
    if k in ("copy_for_deref", "rawptr"):
        return "%s(%s)" % (k, place_s(rv["place"]))
    return k + ":" + str(rv.get("s", ""))[:60]


def callee_s(fn):
    if "indirect" in fn:
        return "indirect(%s)" % op_s(fn["indirect"])
    r = fn.get("resolved")
    return (r["path"] if r else "UNRES:" + fn["path"])


def dump(body, out=sys.stdout):
    m = body["mir"]
    out.write("fn %s  [%s]\n" % (body["path"], body["key"]))
    for i, l in enumerate(m["locals"]):
        out.write("  let _%d: %s\n" % (i, l["ty"]["s"]))
    for n in m["names"]:
        out.write("  debug %s => %s\n" % (n["name"], place_s(n["place"])))
    for bi, b in enumerate(m["blocks"]):
        out.write("  bb%d%s:\n" % (bi, " (cleanup)" if b["cleanup"] else ""))
        for s in b["stmts"]:
            if s["k"] == "assign":
                sp = s["span"]
                out.write("    %s = %s    // %s%s\n" % (place_s(s["place"]), rv_s(s["rv"]), sp["line"], " exp:" + ",".join(sp["macros"]) if sp["exp"] else ""))
            elif s["k"] == "set_discr":
                out.write("    discriminant(%s) = %d\n" % (place_s(s["place"]), s["v"]))
        t = b["term"]
        k = t["k"]
        if k == "goto":
            out.write("    goto bb%d\n" % t["t"])
        elif k == "switch":
            out.write("    switchInt(%s) -> [%s, otherwise: bb%d]  // exp:%s\n" % (op_s(t["discr"]), ", ".join("%d: bb%d" % (v, tg) for v, tg in t["arms"]), t["otherwise"], ",".join(t["span"]["macros"])))
        elif k == "call":
            out.write("    %s = %s(%s) -> %s   // %s\n" % (place_s(t["dest"]), callee_s(t["func"]), ", ".join(op_s(a) for a in t["args"]), "bb%d" % t["t"] if t["t"] is not None else "!", t["span"]["line"]))
        elif k == "assert":
            out.write("    assert(%s == %s, %s(%s)) -> bb%d\n" % (op_s(t["cond"]), t["expected"], t["msg"], ", ".join(op_s(o) for o in t["ops"]), t["t"]))
        elif k == "drop":
            out.write("    drop(%s) -> bb%d\n" % (place_s(t["place"]), t["t"]))
        else:
            out.write("    %s\n" % k)


if __name__ == "__main__":
    sys.path.insert(0, __import__("os").path.dirname(__import__("os").path.dirname(__import__("os").path.abspath(__file__))))
    from analysis import facts
    f = facts.load(sys.argv[2] if len(sys.argv) > 2 else "dbg")
    for b in f.raw["bodies"]:
        if sys.argv[1] in b["path"] or sys.argv[1] in b["key"]:
            dump(b)
            for i, p in enumerate(b["promoted"]):
                print("  -- promoted[%d]" % i)
                dump(dict(path=b["path"] + "::promoted[%d]" % i, key="", mir=p))
