"""E1 front end: run the rustc_private fact extractor on /repo's *current* working tree and load
the result.  Facts are cached under /verif/.cache/facts keyed by a hash of everything that can
influence them (sources, manifests, driver binary, configuration), so a changed tree is always
re-extracted and an unchanged one is not.
"""
import fcntl
import hashlib
import json
import os
import shutil
import subprocess
import sys
import tempfile
import time

VERIF = os.path.dirname(os.path.dirname(os.path.abspath(__file__)))
REPO = os.environ.get("VOLUTE_REPO", "/repo")
CACHE = os.path.join(VERIF, ".cache")
DRIVER_DIR = os.path.join(VERIF, "driver")
DRIVER = os.path.join(DRIVER_DIR, "target", "release", "volute-facts")

CONFIGS = {
    # superset of sites: debug assertions + overflow checks present
    "dbg": dict(features=None, flags="-Cdebug-assertions=on -Coverflow-checks=on"),
    # what a release build executes
    "rel": dict(features=None, flags="-Cdebug-assertions=off -Coverflow-checks=off"),
    # API without the rand feature
    "nodef": dict(features="--no-default-features", flags="-Cdebug-assertions=on -Coverflow-checks=on"),
}


def _sysroot():
    return subprocess.check_output(["rustc", "+nightly", "--print", "sysroot"], text=True).strip()


def ensure_driver():
    src = os.path.join(DRIVER_DIR, "src", "main.rs")
    if os.path.exists(DRIVER) and os.path.getmtime(DRIVER) >= os.path.getmtime(src):
        return
    env = dict(os.environ, CARGO_NET_OFFLINE="true")
    subprocess.check_call(["cargo", "build", "--release", "--offline"], cwd=DRIVER_DIR, env=env,
                          stdout=subprocess.DEVNULL, stderr=subprocess.DEVNULL)


def source_files():
    out = []
    for root, dirs, files in os.walk(os.path.join(REPO, "src")):
        dirs.sort()
        for f in sorted(files):
            if f.endswith(".rs"):
                out.append(os.path.join(root, f))
    for f in ("Cargo.toml", "Cargo.lock"):
        p = os.path.join(REPO, f)
        if os.path.exists(p):
            out.append(p)
    return out


def tree_hash():
    h = hashlib.sha256()
    for p in source_files():
        h.update(os.path.relpath(p, REPO).encode())
        h.update(b"\0")
        with open(p, "rb") as fh:
            h.update(fh.read())
        h.update(b"\0")
    with open(os.path.join(DRIVER_DIR, "src", "main.rs"), "rb") as fh:
        h.update(fh.read())
    return h.hexdigest()[:20]


def extract(cfg, out_path):
    """Run cargo check with the driver as workspace wrapper.  The volute member is always rebuilt
    (fresh fingerprint), dependency artefacts are reused from the cache directory."""
    conf = CONFIGS[cfg]
    ensure_driver()
    tdir = os.path.join(CACHE, "target-" + cfg)
    os.makedirs(tdir, exist_ok=True)
    # force re-analysis of the volute crate: cargo's freshness cache would otherwise skip the wrapper
    for sub in ("debug/.fingerprint", "debug/deps", "debug/incremental"):
        d = os.path.join(tdir, sub)
        if os.path.isdir(d):
            for e in os.listdir(d):
                if e.startswith("volute-") or e.startswith("libvolute-") or e.startswith("volute"):
                    p = os.path.join(d, e)
                    shutil.rmtree(p, ignore_errors=True) if os.path.isdir(p) else os.unlink(p)
    env = dict(os.environ)
    env.update(
        CARGO_NET_OFFLINE="true",
        LD_LIBRARY_PATH=_sysroot() + "/lib",
        RUSTFLAGS="-Zmir-opt-level=0 -Awarnings " + conf["flags"],
        RUSTC_WORKSPACE_WRAPPER=DRIVER,
        VOLUTE_FACTS_OUT=out_path,
        CARGO_TARGET_DIR=tdir,
        CARGO_INCREMENTAL="0",
    )
    cmd = ["cargo", "+nightly", "check", "--offline", "--lib"]
    if conf["features"]:
        cmd.append(conf["features"])
    if os.path.exists(out_path):
        os.unlink(out_path)
    p = subprocess.run(cmd, cwd=REPO, env=env, stdout=subprocess.PIPE, stderr=subprocess.STDOUT, text=True)
    if p.returncode != 0 or not os.path.exists(out_path):
        sys.stderr.write(p.stdout[-4000:])
        raise RuntimeError("fact extraction failed for cfg=%s (the tree does not compile?)" % cfg)


def facts_path(cfg):
    os.makedirs(os.path.join(CACHE, "facts"), exist_ok=True)
    return os.path.join(CACHE, "facts", "%s-%s.json" % (tree_hash(), cfg))


def get_raw(cfg="dbg"):
    path = facts_path(cfg)
    if not os.path.exists(path):
        lock = open(os.path.join(CACHE, "lock-" + cfg), "w")
        fcntl.flock(lock, fcntl.LOCK_EX)
        try:
            if not os.path.exists(path):
                tmp = path + ".part.%d" % os.getpid()
                t0 = time.time()
                extract(cfg, tmp)
                os.rename(tmp, path)
                _prune()
                sys.stderr.write("[facts] extracted cfg=%s in %.1fs\n" % (cfg, time.time() - t0))
        finally:
            fcntl.flock(lock, fcntl.LOCK_UN)
            lock.close()
    with open(path) as fh:
        return json.load(fh)


def _prune(keep=80):
    d = os.path.join(CACHE, "facts")
    fs = sorted((os.path.getmtime(os.path.join(d, f)), f) for f in os.listdir(d) if f.endswith(".json"))
    for _, f in fs[:-keep]:
        os.unlink(os.path.join(d, f))


# ----------------------------------------------------------------------------------------------
# indexed view
# ----------------------------------------------------------------------------------------------
class Facts:
    def __init__(self, raw, cfg):
        self.raw = raw
        self.cfg = cfg
        self.bodies = {}
        for b in raw["bodies"]:
            b["is_test"] = "::tests::" in b["path"] or b["path"].startswith("tests::") or "::tests::" in b["key"]
            self.bodies[b["key"]] = b
        self.by_path = {}
        for b in raw["bodies"]:
            self.by_path.setdefault(b["path"], []).append(b)
        self.consts = {c["path"]: c for c in raw["consts"]}
        self.consts_by_key = {c["key"]: c for c in raw["consts"]}
        self.adts = {a["path"]: a for a in raw["adts"]}
        self.impls = raw["impls"]
        self.aliases = raw["aliases"]
        self.exports = raw["exports"]

    def lib_bodies(self):
        return [b for b in self.raw["bodies"] if not b["is_test"]]

    def body(self, key):
        return self.bodies.get(key)

    def inherent_methods(self, adt_path):
        """public+private inherent methods of a local ADT: name -> body"""
        out = {}
        for b in self.lib_bodies():
            im = b.get("impl")
            if b["kind"] == "AssocFn" and im and im["trait"] is None and im["self_ty"].get("path") == adt_path:
                out[b["name"]] = b
        return out

    def trait_impl_methods(self, trait_path_prefix=None):
        """all trait-impl method bodies: list of (body, self_ty_json, trait_json)"""
        out = []
        for b in self.lib_bodies():
            im = b.get("impl")
            if b["kind"] == "AssocFn" and im and im["trait"] is not None:
                if trait_path_prefix is None or im["trait"]["path"].startswith(trait_path_prefix):
                    out.append((b, im["self_ty"], im["trait"]))
        return out

    def free_fn(self, path):
        bs = [b for b in self.by_path.get(path, []) if b["kind"] == "Fn"]
        return bs[0] if bs else None


_loaded = {}


def load(cfg="dbg"):
    if cfg not in _loaded:
        _loaded[cfg] = Facts(get_raw(cfg), cfg)
    return _loaded[cfg]


def loc(span):
    return "%s:%d" % (span["file"], span["line"]) if span else "?"
