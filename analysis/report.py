"""Verdict bookkeeping, evidence files, known findings, exit codes."""
import json
import os
import sys
import time

VERIF = os.path.dirname(os.path.dirname(os.path.abspath(__file__)))
PROVED, REFUTED, UNDECIDED = "PROVED", "REFUTED", "UNDECIDED"


def load_known():
    p = os.path.join(VERIF, "known_findings.json")
    if not os.path.exists(p):
        return []
    with open(p) as fh:
        return json.load(fh).get("findings", [])


class Check(object):
    def __init__(self, pid, tier, level="proof", checker_cmd=None):
        self.pid = pid
        self.tier = tier
        self.level = level
        self.t0 = time.time()
        self.obls = []          # dicts: rule, key, verdict, detail, partition
        self.samples = []
        self.assumptions = []
        self.trusted = []
        self.notes = {}
        self.floors = []        # (rule, count, floor)
        self.checker_cmd = checker_cmd or "bin/check %s --tier %s" % (pid, tier)
        self.seed = int(os.environ.get("VERIF_SEED", "0") or 0)
        self.known = [k for k in load_known() if k.get("property") == pid and k.get("status") == "known"]

    # ------------------------------------------------------------------
    def add(self, rule, key, verdict, detail="", nontrivial=True, sample=None, where=None):
        """key: stable identifier (no line numbers) of the obligation instance"""
        o = dict(rule=rule, key=key, verdict=verdict, detail=detail, nontrivial=nontrivial, where=where)
        self.obls.append(o)
        if sample is not None and len(self.samples) < 12:
            self.samples.append(sample)
        return verdict == PROVED

    def proved(self, rule, key, detail="", **kw):
        return self.add(rule, key, PROVED, detail, **kw)

    def refuted(self, rule, key, detail="", **kw):
        return self.add(rule, key, REFUTED, detail, **kw)

    def undecided(self, rule, key, detail="", **kw):
        return self.add(rule, key, UNDECIDED, detail, **kw)

    def floor(self, rule, count, floor):
        """vacuity guard: a rule must have matched at least `floor` instances"""
        self.floors.append((rule, count, floor))
        if count < floor:
            self.refuted("floor", "floor:%s" % rule, "rule %s matched %d instances, floor is %d (anchor lost?)" % (rule, count, floor))

    def assume(self, text):
        if text not in self.assumptions:
            self.assumptions.append(text)

    def trust(self, text):
        if text not in self.trusted:
            self.trusted.append(text)

    # ------------------------------------------------------------------
    def finish(self):
        wall = time.time() - self.t0
        known_keys = {k["key"]: k for k in self.known}
        n_ref_new = 0
        # evidence describes /repo; runs against a scratch copy (VOLUTE_REPO, used by the seed / refactor self tests)
        # write theirs elsewhere so that the committed evidence never comes from a snapshot
        ev_dir = os.path.join(VERIF, "evidence")
        if os.path.realpath(os.environ.get("VOLUTE_REPO", "/repo")) != "/repo":
            ev_dir = os.path.join(VERIF, ".cache", "scratch-evidence")
        replay_dir = os.path.join(ev_dir, "replay")
        os.makedirs(replay_dir, exist_ok=True)
        seen_known = set()
        viol = []
        for o in self.obls:
            if o["verdict"] == REFUTED:
                if o["key"] in known_keys:
                    if o["key"] not in seen_known:
                        seen_known.add(o["key"])
                        print("KNOWN-FINDING: property=%s %s [%s] %s" % (self.pid, known_keys[o["key"]].get("what", ""), o["key"], o["detail"]))
                    o["known"] = True
                else:
                    n_ref_new += 1
                    viol.append(o)
            elif o["verdict"] == UNDECIDED:
                print("UNDECIDED property=%s obligation=%s cause=%s" % (self.pid, o["key"], o["detail"]))
        counts = dict(
            obligations=len(self.obls),
            discharged=sum(1 for o in self.obls if o["verdict"] == PROVED),
            refuted=sum(1 for o in self.obls if o["verdict"] == REFUTED),
            known_findings=len(seen_known),
            undecided=sum(1 for o in self.obls if o["verdict"] == UNDECIDED),
        )
        distinct = len({(o["rule"], o["key"]) for o in self.obls if o["nontrivial"]})
        by_rule = {}
        for o in self.obls:
            r = by_rule.setdefault(o["rule"], dict(PROVED=0, REFUTED=0, UNDECIDED=0))
            r[o["verdict"]] += 1
        cov = dict(counts)
        cov.update(
            evaluations=len(self.obls),
            distinct_nontrivial=distinct,
            rule="one evaluation = one static obligation (rule, site, partition); non-trivial = the obligation was decided from MIR facts of a discovered site (not a bookkeeping floor); distinct by (rule, key)",
            samples=self.samples or [dict(rule=o["rule"], key=o["key"], verdict=o["verdict"]) for o in self.obls[:5]],
            checker_cmd=self.checker_cmd,
            trusted_base=self.trusted,
            by_rule=by_rule,
            floors=[dict(rule=r, matched=c, floor=f) for r, c, f in self.floors],
            explanation=self.notes.get("explanation", "static obligations over rustc MIR facts of /repo; see DESIGN.md"),
            exhaustive=False,
        )
        for k, v in self.notes.items():
            if k != "explanation":
                cov[k] = v
        ev = dict(
            property_id=self.pid,
            tier=self.tier,
            seed=self.seed,
            level=self.level,
            coverage=cov,
            assumptions=self.assumptions,
            wall_s=round(wall, 3),
            violations=n_ref_new,
        )
        os.makedirs(ev_dir, exist_ok=True)
        with open(os.path.join(ev_dir, "%s.json" % self.pid), "w") as fh:
            json.dump(ev, fh, indent=1, sort_keys=True, default=str)
        print("%s tier=%s obligations=%d proved=%d refuted=%d (known %d) undecided=%d wall=%.1fs" % (
            self.pid, self.tier, counts["obligations"], counts["discharged"], counts["refuted"], counts["known_findings"], counts["undecided"], wall))
        for r, c in sorted(by_rule.items()):
            print("  rule %-28s proved=%d refuted=%d undecided=%d" % (r, c["PROVED"], c["REFUTED"], c["UNDECIDED"]))
        if viol:
            rp = os.path.join(replay_dir, "%s.json" % self.pid)
            with open(rp, "w") as fh:
                json.dump(dict(property=self.pid, tier=self.tier, violations=viol), fh, indent=1, default=str)
            for o in viol[:20]:
                print("  REFUTED %s :: %s :: %s%s" % (o["rule"], o["key"], o["detail"], (" @ " + o["where"]) if o.get("where") else ""))
            print("VIOLATION property=%s replay=%s" % (self.pid, rp))
            return 1
        return 0
