#!/usr/bin/env python3
"""Regenerate MANIFEST.json from the table below (keeps it schema-valid)."""
import json
import os

VERIF = os.path.dirname(os.path.dirname(os.path.abspath(__file__)))

TB = "rustc nightly-1.97 MIR construction + const evaluation; std/rand summaries (analysis/stdmodel.py); specification generators (analysis/specs.py)"

CHECKS = {
    "C03": dict(
        cat="proof", ref="3 C03",
        technique="abstract interpretation of rustc MIR on a bit-granular domain (per-bit Boolean functions of symbolic table bits), compared with the specification bit functions",
        text="For every n in the tier's range, every index (pair) and both table types, the abstract result of each public transform on a table of symbolic bits equals the specified bit permutation/selection exactly, for all table contents at once; copying forms are shown to leave the receiver unchanged and from_cofactors(cofactors(f)) = f by composition. A refutation names the method, partition and an exact differing bit.",
        note="Trusted: " + TB + ". Loops are unrolled per concrete n (quick 1..8, thorough 1..12); larger n follow the same code path and are not claimed. Inputs assumed well formed (C02).",
    ),
}

NOT_APPLICABLE = {
    "C07": "bdd_complexity is the cardinality of sorted+deduplicated sets of runtime sub-tables; no sound static argument in reach bounds that count, and the only shape clauses (level ranges, concatenation) are far from sufficient (DESIGN.md section 4).",
    "C18": "optimality/exactness of the solution of an external MILP solver on a model built at run time; needs feature optim-mip and the solver's semantics; the only shape rule available would fire on behaviour-preserving edits (DESIGN.md section 4).",
}


def main():
    props = [json.loads(l)["id"] for l in open(os.path.join(VERIF, "properties.jsonl"))]
    checks = []
    for pid in props:
        c = CHECKS.get(pid)
        if not c:
            continue
        checks.append(dict(
            property_id=pid,
            quick_cmd="bin/check %s --tier quick" % pid,
            thorough_cmd="bin/check %s --tier thorough" % pid,
            evidence_file="evidence/%s.json" % pid,
            replay_cmd_template="bin/check %s --replay {path}" % pid,
            engine="static-rules",
            level_claimed=dict(category=c["cat"], text=c["text"], design_ref="DESIGN.md section " + c["ref"]),
            level_note=c["note"],
            technique=c["technique"],
        ))
    na = []
    for pid in props:
        if pid in CHECKS:
            continue
        na.append(dict(property_id=pid, reason=NOT_APPLICABLE.get(pid, "check not built yet in this round (planned, see DESIGN.md section 3)")))
    fix_commits = []
    kf = os.path.join(VERIF, "known_findings.json")
    if os.path.exists(kf):
        for f in json.load(open(kf)).get("findings", []):
            if f.get("status") == "fixed" and f.get("commit") and f["commit"] not in fix_commits:
                fix_commits.append(f["commit"])
    m = dict(
        version=1,
        setup_cmd="cd driver && CARGO_NET_OFFLINE=true cargo build --release --offline",
        hooks=dict(
            guard="volute_verif",
            enable="none needed: facts are read from the compiler (rustc_private driver injected with RUSTC_WORKSPACE_WRAPPER under cargo +nightly check); no hook exists in /repo",
            baseline_off_cmd="cd /repo && cargo test --workspace --no-fail-fast --offline",
            source_commits=fix_commits,
            add_only=True,
        ),
        engines=[
            dict(name="facts", path="driver/", serves_properties=sorted(CHECKS), kind_free_text="rustc_private fact extractor: type-checked program + MIR with resolved callees + evaluated constants as JSON"),
            dict(name="static-rules", path="analysis/", serves_properties=sorted(CHECKS), kind_free_text="Python: CFG/dominance rules, call-graph/forwarding rules, constant-table predicates, bit-granular abstract interpreter (bitflow) with specifications"),
        ],
        checks=checks,
        not_applicable=na,
        notes="Static analysis only: every verdict is computed from rustc's type-checked program/MIR of /repo's current working tree; nothing from volute is executed. Verdict lattice PROVED/REFUTED/UNDECIDED; only REFUTED (definite witness) raises VIOLATION. See DESIGN.md.",
    )
    with open(os.path.join(VERIF, "MANIFEST.json"), "w") as fh:
        json.dump(m, fh, indent=1)
    print("wrote MANIFEST.json with %d checks, %d not_applicable" % (len(checks), len(na)))


if __name__ == "__main__":
    main()
