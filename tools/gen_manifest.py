#!/usr/bin/env python3
"""Regenerate MANIFEST.json from the table below (keeps it schema-valid)."""
import json
import os

VERIF = os.path.dirname(os.path.dirname(os.path.abspath(__file__)))

TB = "rustc nightly-1.97 MIR construction + const evaluation; std/rand summaries (analysis/stdmodel.py); specification generators (analysis/specs.py)"

CHECKS = {
    "C03": dict(
        cat="proof", ref="3 C03",
        technique="abstract interpretation of rustc MIR on a bit-granular domain (per-bit Boolean functions of symbolic table bits), compared with the specification bit functions",
        text="For every n in the tier's range, every index (pair) and both table types, the abstract result of each public transform on a table of symbolic bits equals the specified bit permutation/selection exactly, for all table contents at once; copying forms are shown to leave the receiver unchanged and from_cofactors(cofactors(f)) = f by composition. A refutation names the method, partition and an exact differing bit.",
        note="Trusted: " + TB + ". Loops are unrolled per concrete n (quick 1..10, thorough 1..12); larger n follow the same code path and are not claimed. Inputs assumed well formed (C02).",
    ),
}

BF = "abstract interpretation of rustc MIR on a bit-granular domain (per-bit Boolean functions of symbolic table bits, clause-set Booleans), compared with specification bit functions"
CHECKS.update({
    "C01": dict(cat="proof", ref="3 C01", technique=BF + "; forms discovered from the trait/inherent impls",
        text="Every discovered form of NOT/AND/OR/XOR (28 per type: named, in-place, operator traits by value/reference, compound assignment) is run on tables of symbolic bits for each n: the result equals a(m) op b(m) at every position (NOT re-masked above 2^n), has the right size, and borrowed operands are unchanged - for all table contents at once. Sibling forms agree because each equals the same specification; a per-operator form count guards against vacuity. Forms taking two shared references are also run with both references to one object.",
        note="Trusted: " + TB + ". n in 0..12 (quick) / StaticLut 0..12 and Lut 0..14 (thorough), loops unrolled per n. Operand tables assumed well formed (C02); size mismatches are C17."),
    "C02": dict(cat="proof", ref="3 C02", technique="ownership rule on ADT field visibility + inductive invariant proved per public producer by bit-granular abstract interpretation of MIR (unused bits constant 0, block count) + abstract summary of eq/cmp",
        text="Inductive invariant over all API histories: the representation fields are private to their module (rustc privacy), and every externally reachable body of those modules that returns or mutates a table is shown, on well-formed symbolic inputs and a partition of valid arguments, to hand back tables with table_size(n) blocks, the right num_vars and constant-0 bits at positions >= 2^n; derived/abstractly summarised eq, hash and cmp compare exactly the representation. Producers outside those modules (the Sop/Esop/Soes conversions, which reach a table only through the public API) are interpreted on windows of real terms: every result bit at a position >= 2^n is 0 for every choice of terms; any other outside caller of from_blocks is reported undecided.",
        note="Trusted: " + TB + "; rustc privacy checking. from_blocks exempt by its stated precondition (checked to copy verbatim). Canonization producers use join-at-top for the data-dependent comparisons. n in 0..6 (quick) / 0..8 (thorough); a dynamic Lut handed to a generic StaticLut<N,T> impl (TryFrom) is run for every pair (n_in, N)."),
    "C06": dict(cat="proof", ref="3 C06", technique="abstract interpretation of MIR to path-condition/class pairs over clause-set Booleans; uniform-pair-predicate abstraction and exhaustive comparison with the statement's decision list",
        text="top_decomposition, is_pos_unate and is_neg_unate are run on a symbolic table for every (n, v): each path yields (condition, class). For n <= 3 the summary is compared with the statement on all tables; for n >= 4 every condition is shown to be the same per-position predicate on (c0,c1) at all 2^(n-1) positions and the decision is compared with the statement on all 15 non-empty value-pair sets. A refutation is a concrete table with the wrong class.",
        note="Trusted: " + TB + "; spec_class() is the reading of the statement. n in 1..10 (quick) / 1..12 (thorough); cross-word path unrolled per n; clauses that OR/AND the mismatches of several words before the test are split back into per-position parts."),
    "C11": dict(cat="proof", ref="3 C11", technique=BF,
        text="Every named constructor of both types is run for each n, each index and each k in 0..n+2 plus {63,64,65,usize::MAX} (symmetric with a symbolic count mask): the resulting table equals the specified function bit for bit, with no feasible panic.",
        note="Trusted: " + TB + ". n in 0..10 (quick, debug configuration) / 0..12 (+14 for Lut) in both build configurations (thorough)."),
    "C17": dict(cat="proof", ref="3 C17", technique="abstract interpretation of MIR under two build configurations (debug-assertions+overflow-checks on/off): reachability of a return for invalid-argument partitions, equality of abstract results for valid ones",
        text="For every public method with an index/assignment/block-slice parameter, n in 0..8 (thorough 0..10) and a partition of invalid values (n, n+1, 31/32, 63/64/65, n+70, usize::MAX; wrong slice lengths; mismatched operand sizes for every binary form of Lut), no path returns under either configuration; for valid arguments the abstract results of both configurations are identical and no panic path is feasible. Effect discipline: no call that is live only in the debug-configuration body receives a mutable reference reaching a parameter or the return place.",
        note="Trusted: " + TB + " for both configurations. StaticLut size mismatches are rejected by the type checker (compile-fail witness in C10 thorough). Canonization, bdd and text methods take no index parameter and are outside this property's scope."),
})

PP = "path-policy abstract interpretation of the canonization walks on symbolic tables (the data-dependent comparisons are fixed by a policy per abstract path), plus predicates on the evaluated constant sequences"
CHECKS.update({
    "C04": dict(cat="other", ref="3 C04", technique=PP,
        text="For each canonization, type and n in the tier's range the walk is run on a symbolic table along the path where no visited table is smaller: it terminates normally, returns the input unchanged, compares every visited table against the best so far (most significant word first), and the visited tables plus the input are exactly the orbit of the input under the group (computed on symbolic tables, hence for every function). Constant flip/swap sequences are closed covering cycles. For n = 7, 8 the step kernels the walks call are shown to be the group generators (adjacent transposition / complement of a variable) on symbolic tables. On tables with at most 8 symbolic bits (all functions of n <= 3, windows at n = 4 and n = 7) the methods run in window mode and return, for every choice, the smallest image under the group computed by brute force. Minimality for larger n follows with the order decided by C08.",
        note="Partial: walks on the hard-coded sequences (p n<=5/6, n n<=6, npn n<=3/4 quick/thorough); for n=7 (8 thorough) only the folded run-time generated sequences are checked (closed covering cycles, same for walk and decoder), not the walk itself. Trusted: " + TB + "; the step from 'every orbit element visited and the strictly smaller kept' to 'minimum returned'."),
    "C05": dict(cat="other", ref="3 C05", technique=PP,
        text="Along the path where no comparison succeeds the returned certificate is the identity; along the path where exactly the k-th comparison succeeds the returned table is the k-th visited table and the returned (perm, mask) maps the symbolic input to it by the statement's formula, perm a permutation and mask without bits above n - for every comparison index k (sampled for the longest walks in the quick tier), every n in range, both types. On tables with at most 8 symbolic bits the returned certificate, replayed by the statement's formula, yields the returned table for every choice.",
        note="Partial: n ranges as C04. Paths with several successful comparisons are covered by the last-success index only (decoder depends only on the final index). Trusted: " + TB),
    "C08": dict(cat="other", ref="3 C08", technique="abstract summary of Ord::cmp on symbolic tables (reversed word views, lexicographic); per-path word-level terms of the successor kernel; iterator typestate by abstract interpretation",
        text="Ord::cmp of both types compares the two tables word for word, most significant word first, as unsigned integers (Lut: variable count first); PartialOrd forwards to it (a comparison written as control flow - compare a block, return on difference - is recognised and summarised the same way). The iterator hands out a copy of the current table, steps it by (w+1)&mask per word with carry into the next word exactly on wrap-around, clears its flag exactly when all words wrapped, and yields None afterwards with the flag still off on every path of that call (an exhausted iterator polled again stays exhausted); all_functions starts at zero. `==` is false for tables of different sizes whatever their blocks (the order never gives Equal there).",
        note="Not decided: the induction from the per-step facts to 'every function exactly once', transitivity of integer order, agreement with hex order (C09). Trusted: " + TB + "; multiword-increment lemma."),
    "C10": dict(cat="proof", ref="3 C10", technique="type-level facts (aliases, API parity) + differential abstract interpretation of Lut vs StaticLut methods on identical symbolic inputs (uninterpreted functions for unmodelled read-only kernels) + bitflow on conversions",
        text="All 13 aliases tie N to max(1,2^N/64) blocks and are exported; every public method/trait impl has its counterpart; for every common method, n and valid argument partition the abstract results of Lut and StaticLut on the same symbolic table are identical; TryFrom fails exactly on a different variable count and copies blocks verbatim, From copies verbatim, integer conversions map bit m to f(m) with matching widths. bdd_complexity: both types hand the same arguments to the counting kernel, and with the kernel interpreted on tables of 1-3 variables both return the same count for every choice of [f], [f,f], [f,!f], [f,g].",
        note="Trusted: " + TB + "; read-only kernels that are not modelled (formatting, BDD counting) are treated as uninterpreted functions of their abstract arguments. Compile-fail witnesses W2/W3 run in the thorough tier."),
    "C19": dict(cat="other", ref="3 C19", technique="bit-provenance by abstract interpretation: every result bit is traced to a distinct fresh generator bit or the constant 0; who-may-construct rule with a backward slice of the seed operand of every explicitly seeded generator (MIR def-use, statics named by the driver)",
        text="In random() of both types every table bit below 2^n is a copy of a distinct bit of a fresh next_u64 draw from rand::thread_rng (one draw per word), every bit at or above 2^n is constant 0, the crate has no static state (both build configurations), and the function disappears without the rand feature (thorough). Threads: no body random() reaches updates a static atomic by load .. store (a lost-update race hands two threads the same words). Histories: random() is called repeatedly on one abstract state (thread_local storage is part of it) and no draw may hand out a generator bit an earlier draw of the history handed out. Any explicitly seeded generator (seed_from_u64/from_seed/..::new) built per call or per thread whose seed derives only from constants and write-once statics is a violation (same stream for every call / thread).",
        note="Not decided: statistical quality/independence of rand's generator (trusted dependency)."),
})

TOK = "token-level abstract interpretation (strings / formatter output as token lists, format-string literals read from the macro call)"
OPQ = "abstract interpretation of the container code on symbolic containers of fixed small length whose element methods are opaque predicates"
CHECKS.update({
    "C09": dict(cat="other", ref="3 C09", technique=TOK + " for the printers; abstract interpretation of the parser on symbolic strings partitioned by length, with a summary of u64::from_str_radix; window-mode abstract interpretation on byte strings with symbolic bytes (digit decoding modelled bit-exactly), summary evaluated on every byte value",
        text="In both build configurations, to_hex_string/to_bin_string emit one zero-padded lower-hex/binary token per word, most significant word first, with the specified per-word width; Display/LowerHex/Binary wrap them as Lut<n>(...). from_hex_string: wrong lengths and non-ASCII text only reach Err, no path panics (slicing guarded), on every Ok path each chunk passed an all-hex-digits test before from_str_radix (which accepts '+'), lands in the matching word and fits in 2^n bits. Byte windows (both build configurations): with one or two symbolic bytes among '0' characters, the parser's summary evaluated on every byte value gives Ok(the denoted table) exactly for lower-case/decimal digits that fit, Err or the same table for upper-case A-F, Err for everything else, and never panics.",
        note="Not decided: that core::fmt renders the value's digits (trusted std), upper-case acceptance. n in 0..12."),
    "C12": dict(cat="other", ref="3 C12", technique="lane abstraction: conditions/results of the 32-lane cube code are shown to be uniform per-lane predicates/functions and compared with the semantic specification on every non-empty set of lane values; shift constructors by bitflow in 32-bit word mode",
        text="value, is_zero/is_one/is_constant, implies, intersects, all four & forms, from_mask and derived equality are exact for all canonical cubes at once (32 lanes, symbolic), contradictory products are the one canonical zero; minterm is exact for every num_vars in 0..=32 with a symbolic assignment; nth_var/nth_var_inv/one/zero as specified.",
        note="Counts, literal iterators, from_vars, implies_lut (n<=2) and Cube::all (n<=3) are decided on variable windows only (small-domain evaluation of the summaries). Inputs are canonical cubes (fields private; every analysed constructor returns canonical cubes). Trusted lemma: containment of literal sets is implication for canonical cubes."),
    "C13": dict(cat="other", ref="3 C13", technique="bitflow with xor-sum bit values for Ecube (all 32 lanes); " + OPQ + " for Soes; window-mode abstract interpretation of | on real XOR terms over two variables, summary evaluated on every operand choice",
        text="Ecube::value is the parity of (vars & m) xor the flag for all 2^32 terms and assignments; ^ and ! act field-wise in all 6 forms; constants, single-variable terms, is_zero/is_one exact; equality derived over a canonical representation. Soes (0..3 symbolic terms): value is the OR over all terms, all four | forms keep every term of both operands, conversion to Lut tabulates value (n<=3), is_zero only for the empty form, is_one only when a term is the constant one. On real terms over a two-variable window (up to 2+2 terms) | denotes the OR of the operands for every choice of terms.",
        note="Ecube::all decided for n<=3 (folded), counts/vars/from_vars/implies_lut on variable windows. Containers analysed for lengths 0..3 incl. repeated and shared terms (length-generic loops)."),
    "C14": dict(cat="other", ref="3 C14", technique=OPQ + " (value, products, is_zero, implies, == opaque), every realisable valuation of the predicates enumerated; window-mode abstract interpretation of |, &, ! on real cubes over two variables (the cubes' own Ord/PartialEq/implies run in the interpreter, sort/dedup/retain semantic), summary evaluated on every canonical operand choice; Lut->Sop on symbolic tables",
        text="value is the OR of all cubes; every form of | and & runs the simplification last on the container it returns; | keeps all cubes, & forms all pairwise products; simplification keeps, on every realisable valuation of the opaque predicates, exactly the non-zero cubes implying no other cube; complement is the De Morgan fold from the constant one with inverted literals; Lut->Sop emits exactly the minterms (n<=2 quick, 3 thorough); is_zero/is_one sound. On real cubes over a two-variable window (operands up to 2+2 / 0+3 cubes) |, & and ! denote OR, AND and complement and return a cover with no contradictory cube, no duplicate and no cube implying another, for every canonical choice of operand cubes.",
        note="Beyond the window sizes the argument is: simplification runs last (C14.M) + its specification on opaque predicates (C14.S) + the trusted absorption lemma. std::sort is modelled as the stable sort by the elements' own order. Lengths 0..3."),
    "C15": dict(cat="other", ref="3 C15", technique=OPQ + "; Lut->Esop by path-sensitive abstract interpretation on symbolic tables (every abstract path; for larger n a few symbolic table bits at a time, on sparse and on dense backgrounds); window-mode abstract interpretation of ^ and ! on real cubes over two variables",
        text="value is the XOR of all cubes; ^ concatenates in all four forms; ! appends exactly one constant-one cube; conversion to Lut tabulates value; is_zero/is_one only for the constants. Lut->Esop (all functions for n<=2 quick, 3 thorough; for n = 3..8, thorough 10, functions with a few symbolic table bits and all 0 or all 1 elsewhere): on every path the emitted cubes are all-positive, below 2^n, without duplicate, and exactly the non-zero algebraic-normal-form coefficients of the path's function. On real cubes over a two-variable window ^ and ! denote XOR and complement.",
        note="Lut->Esop for n >= 4 is decided on windows of table bits only (positions with at most two 0 index bits, bit 0, {5, 2^(n-1)}), not for all functions."),
    "C16": dict(cat="other", ref="3 C16", technique=TOK + "; cube/ecube printers followed on every abstract path of a symbolic object over variable windows and constant terms over a sparse variable set folded through the Ecube printer, text compared with the object through the grammar",
        text="Cube and Ecube text over windows {0,1,2}, two-digit indices and variable 31: every object prints a product / xor of its literals in increasing order, 1/0 for the constants, distinct objects distinct text. Sop/Soes join their terms with ' | ' and Esop with ' ^ ' (the operator value() reduces with), each term once in order, empty form prints 0. value() of each of the five types is the denotation of its representation (conjunction of literals, zero cube false, parity, OR/XOR of the term values), so the text denotes what value() returns.",
        note="Not decided: precedence beyond the joiner (term text never contains a looser joiner). Windows are samples of the 32 variables; the printer loop is index-generic."),
})

NOT_APPLICABLE = {
    "C07": "bdd_complexity is the cardinality of sorted+deduplicated sets of runtime sub-tables; no sound static argument in reach bounds that count, and the only shape clauses (level ranges, concatenation) are far from sufficient (DESIGN.md section 4).",
    "C18": "optimality/exactness of the solution of an external MILP solver on a model built at run time; needs feature optim-mip and the solver's semantics; the only shape rule available would fire on behaviour-preserving edits (DESIGN.md section 4).",
}


def main():
    props = [json.loads(l)["id"] for l in open(os.path.join(VERIF, "properties.jsonl"))]
    checks = []
    for pid in props:
        c = CHECKS.get(pid)
        if not c:
            continue
        checks.append(dict(
            property_id=pid,
            quick_cmd="bin/check %s --tier quick" % pid,
            thorough_cmd="bin/check %s --tier thorough" % pid,
            evidence_file="evidence/%s.json" % pid,
            replay_cmd_template="bin/check %s --replay {path}" % pid,
            engine="static-rules",
            level_claimed=dict(category=c["cat"], text=c["text"], design_ref="DESIGN.md section " + c["ref"]),
            level_note=c["note"],
            technique=c["technique"],
        ))
    na = []
    for pid in props:
        if pid in CHECKS:
            continue
        na.append(dict(property_id=pid, reason=NOT_APPLICABLE.get(pid, "check not built yet in this round (planned, see DESIGN.md section 3)")))
    fix_commits = []
    kf = os.path.join(VERIF, "known_findings.json")
    if os.path.exists(kf):
        for f in json.load(open(kf)).get("findings", []):
            if f.get("status") == "fixed" and f.get("commit") and f["commit"] not in fix_commits:
                fix_commits.append(f["commit"])
    m = dict(
        version=1,
        setup_cmd="cd driver && CARGO_NET_OFFLINE=true cargo build --release --offline",
        hooks=dict(
            guard="volute_verif",
            enable="none needed: facts are read from the compiler (rustc_private driver injected with RUSTC_WORKSPACE_WRAPPER under cargo +nightly check); no hook exists in /repo",
            baseline_off_cmd="cd /repo && cargo test --workspace --no-fail-fast --offline",
            source_commits=fix_commits,
            add_only=True,
        ),
        engines=[
            dict(name="facts", path="driver/", serves_properties=sorted(CHECKS), kind_free_text="rustc_private fact extractor: type-checked program + MIR with resolved callees + evaluated constants as JSON"),
            dict(name="static-rules", path="analysis/", serves_properties=sorted(CHECKS), kind_free_text="Python: CFG/dominance rules, call-graph/forwarding rules, constant-table predicates, bit-granular abstract interpreter (bitflow) with specifications"),
        ],
        checks=checks,
        not_applicable=na,
        notes="Static analysis only: every verdict is computed from rustc's type-checked program/MIR of /repo's current working tree; nothing from volute is executed. Verdict lattice PROVED/REFUTED/UNDECIDED; only REFUTED (definite witness) raises VIOLATION. See DESIGN.md.",
    )
    with open(os.path.join(VERIF, "MANIFEST.json"), "w") as fh:
        json.dump(m, fh, indent=1)
    print("wrote MANIFEST.json with %d checks, %d not_applicable" % (len(checks), len(na)))


if __name__ == "__main__":
    main()
