#!/usr/bin/env python3
"""tools/selftest.py [refactors|seeds|all] [--jobs N]
refactors: every /verif/selftest/refactors/*.diff is a behaviour-preserving rewrite; applied to a scratch copy
           of /repo HEAD it must compile, keep the repository's tests green, and NO check may raise VIOLATION.
seeds:     every /verif/seeded/<id>/patch.diff breaks a property; its own property's check must raise VIOLATION
           (exceptions are listed in EXPECTED_MISSES with the reason) and is re-run against all checks to record
           collateral alarms."""
import concurrent.futures
import glob
import json
import os
import shutil
import subprocess
import sys

VERIF = os.path.dirname(os.path.dirname(os.path.abspath(__file__)))
ALL = "C01 C02 C03 C04 C05 C06 C08 C09 C10 C11 C12 C13 C14 C15 C16 C17 C19".split()
EXPECTED_MISSES = {
}


def sh(cmd, cwd, env=None):
    p = subprocess.run(cmd, cwd=cwd, shell=True, env=env, stdout=subprocess.PIPE, stderr=subprocess.STDOUT, text=True)
    return p.returncode, p.stdout


def scratch(name, patch):
    wt = "/tmp/selftest/%s" % name
    shutil.rmtree(wt, ignore_errors=True)
    os.makedirs(wt)
    sh("git -C /repo archive HEAD | tar -x -C %s && find %s -type f -exec touch {} +" % (wt, wt), "/")
    rc, out = sh("patch -s -p1 < %s" % patch, wt)
    if rc != 0:
        raise RuntimeError("patch %s does not apply: %s" % (patch, out))
    return wt


def run_checks(wt, props, tier="quick"):
    env = dict(os.environ, VOLUTE_REPO=wt)
    res = {}
    for p in props:
        rc, out = sh("bin/check %s --tier %s 2>/dev/null" % (p, tier), VERIF, env)
        lines = out.strip().splitlines()
        res[p] = dict(violation=any(l.startswith("VIOLATION") for l in lines), undecided=sum(1 for l in lines if l.startswith("UNDECIDED")),
                      first=[l.strip()[:260] for l in lines if l.strip().startswith("REFUTED")][:1], rc=rc)
    return res


def do_refactor(path):
    name = os.path.basename(path)[:-5]
    wt = scratch(name, path)
    env = dict(os.environ, CARGO_TARGET_DIR="/tmp/selftest/target-%s" % name, CARGO_NET_OFFLINE="true")
    if "--notests" in sys.argv:      # the refactor was shown green before; only the (restricted) checks are re-run
        tests_ok = True
    else:
        rc, out = sh("cargo test --offline 2>&1 | grep -E 'test result|error' | head -4", wt, env)
        tests_ok = out.count("test result: ok") >= 2 and "FAILED" not in out and "error" not in out
    props = sys.argv[sys.argv.index("--props") + 1].split(",") if "--props" in sys.argv else ALL
    res = run_checks(wt, props)
    shutil.rmtree(wt, ignore_errors=True)
    shutil.rmtree("/tmp/selftest/target-%s" % name, ignore_errors=True)
    alarms = {p: r["first"] for p, r in res.items() if r["violation"]}
    und = {p: r["undecided"] for p, r in res.items() if r["undecided"]}
    return name, tests_ok, alarms, und


def do_seed(sid):
    d = os.path.join(VERIF, "seeded", sid)
    meta = json.load(open(os.path.join(d, "meta.json")))
    wt = scratch("seed-" + sid, os.path.join(d, "patch.diff"))
    own_only = "--own" in sys.argv      # only the seed's own property (fast; meta.json is left as it is)
    res = run_checks(wt, [meta["property"]] if own_only else ALL)
    shutil.rmtree(wt, ignore_errors=True)
    caught = [p for p, r in res.items() if r["violation"]]
    if not own_only:
        meta["caught_by"] = caught
        meta["checks"] = {p: r for p, r in res.items() if r["violation"] or r["undecided"]}
        json.dump(meta, open(os.path.join(d, "meta.json"), "w"), indent=1)
    return sid, meta["property"], caught, {p: r["undecided"] for p, r in res.items() if r["undecided"]}


def main():
    what = sys.argv[1] if len(sys.argv) > 1 else "all"
    jobs = int(sys.argv[sys.argv.index("--jobs") + 1]) if "--jobs" in sys.argv else 6
    only = sys.argv[sys.argv.index("--only") + 1] if "--only" in sys.argv else ""   # name prefix filter
    bad = 0
    with concurrent.futures.ThreadPoolExecutor(max_workers=jobs) as ex:
        if what in ("refactors", "all"):
            for name, tests_ok, alarms, und in ex.map(do_refactor, sorted(x for x in glob.glob(os.path.join(VERIF, "selftest", "refactors", "*.diff")) if os.path.basename(x).startswith(only))):
                status = "ok" if tests_ok and not alarms else "PROBLEM"
                if status != "ok":
                    bad += 1
                print("refactor %-28s tests=%s alarms=%s undecided=%s  %s" % (name, "green" if tests_ok else "RED", alarms or "none", und or "none", status))
        if what in ("seeds", "all"):
            sids = sorted(x for x in os.listdir(os.path.join(VERIF, "seeded")) if os.path.exists(os.path.join(VERIF, "seeded", x, "patch.diff")) and x.startswith(only))
            for sid, prop, caught, und in ex.map(do_seed, sids):
                own = prop in caught
                status = "caught" if own else ("expected-miss" if sid in EXPECTED_MISSES else "MISSED")
                if status == "MISSED":
                    bad += 1
                others = [c for c in caught if c != prop]
                print("seed %-7s property=%s %s  also=%s undecided=%s" % (sid, prop, status, others or "none", und or "none"))
    print("selftest: %d problems" % bad)
    return 1 if bad else 0


if __name__ == "__main__":
    sys.exit(main())
