#!/usr/bin/env python3
"""tools/seed_eval.py <worktree> <seed-id> <property> : confirm a seeded change (existing suite green, demo
fails with / passes without), run every quick check against it, store it under /verif/seeded/<seed-id>/."""
import json
import os
import shutil
import subprocess
import sys

VERIF = os.path.dirname(os.path.dirname(os.path.abspath(__file__)))
ALL = "C01 C02 C03 C04 C05 C06 C08 C09 C10 C11 C12 C13 C14 C15 C16 C17 C19".split()


def sh(cmd, cwd, env=None, timeout=3000):
    p = subprocess.run(cmd, cwd=cwd, shell=True, env=env, stdout=subprocess.PIPE, stderr=subprocess.STDOUT, text=True, timeout=timeout)
    return p.returncode, p.stdout


def main():
    src_wt, sid, prop = sys.argv[1], sys.argv[2], sys.argv[3]
    only = sys.argv[4].split(",") if len(sys.argv) > 4 else ALL
    patch_file = os.path.join(src_wt, "seed.patch")
    demo = os.path.join(src_wt, "tests", "seed_demo.rs")
    notes = os.path.join(src_wt, "seed_meta.txt")
    patch = open(patch_file).read()
    if not patch.strip():
        print("empty patch")
        return 1
    # fresh scratch copy of /repo HEAD (independent of the author's worktree state)
    wt = "/tmp/seedchk/%s" % sid
    shutil.rmtree(wt, ignore_errors=True)
    os.makedirs(wt)
    sh("git -C /repo archive HEAD | tar -x -C %s && find %s -type f -exec touch {} +" % (wt, wt), "/")  # fresh mtimes: cargo must not reuse an artefact built from another copy
    os.makedirs(os.path.join(wt, "tests"), exist_ok=True)
    shutil.copy(demo, os.path.join(wt, "tests", "seed_demo.rs"))
    env = dict(os.environ, CARGO_TARGET_DIR="/tmp/seedchk/target-%s" % sid, CARGO_NET_OFFLINE="true")
    res = dict(seed=sid, property=prop)
    # the demo must pass without the change in both profiles when the author mentions --release, and fail with the
    # change in at least one of them (a bug may hide in either profile)
    release = os.path.exists(notes) and "--release" in open(notes).read()
    profiles = ["", " --release"] if release else [""]
    outs3 = [sh("cargo test --offline%s --test seed_demo 2>&1 | tail -5" % pr, wt, env)[1] for pr in profiles]
    res["demo_without_change"] = "passes" if all("test result: ok" in o_ for o_ in outs3) else "FAILS"
    rc0, out0 = sh("git apply --unsafe-paths --directory=%s %s 2>&1 || (cd %s && patch -p1 < %s)" % (wt, patch_file, wt, patch_file), "/")
    rcD, outD = sh("diff -rq /repo/src %s/src" % wt, "/")
    res["patch_applied"] = bool(outD.strip())
    rc1, out1 = sh("cargo test --offline --lib 2>&1 | tail -3", wt, env)
    rc1b, out1b = sh("cargo test --offline --doc 2>&1 | tail -3", wt, env)
    res["suite_with_change"] = "ok" if ("test result: ok" in out1 and "test result: ok" in out1b) else "FAILED"
    res["suite_tail"] = out1.strip().splitlines()[-1:] + out1b.strip().splitlines()[-1:]
    outs2 = [sh("cargo test --offline%s --test seed_demo 2>&1 | tail -5" % pr, wt, env)[1] for pr in profiles]
    res["demo_with_change"] = "fails" if any("test result: FAILED" in o_ or "panicked" in o_ for o_ in outs2) else ("passes" if all("test result: ok" in o_ for o_ in outs2) else "error")
    res["demo_profiles"] = {(pr.strip() or "debug"): ("fails" if ("test result: FAILED" in o_ or "panicked" in o_) else "passes") for pr, o_ in zip(profiles, outs2)}
    res["confirmed"] = res["patch_applied"] and res["suite_with_change"] == "ok" and res["demo_with_change"] == "fails" and res["demo_without_change"] == "passes"
    # 4. checks
    env2 = dict(os.environ, VOLUTE_REPO=wt)
    caught = {}
    for pid in only:
        rc, out = sh("bin/check %s --tier quick 2>/dev/null" % pid, VERIF, env2)
        lines = out.strip().splitlines()
        summ = [l for l in lines if l.startswith(pid + " tier")]
        ref = [l.strip()[:300] for l in lines if l.strip().startswith("REFUTED")][:3]
        und = sum(1 for l in lines if l.startswith("UNDECIDED"))
        caught[pid] = dict(exit=rc, violation=any(l.startswith("VIOLATION") for l in lines), refuted=ref, undecided=und, summary=summ[:1])
    res["checks"] = {k: v for k, v in caught.items() if v["violation"] or v["undecided"] or v["exit"] not in (0, 1)}
    res["caught_by"] = [k for k, v in caught.items() if v["violation"]]
    res["false_quiet_own_property"] = prop in only and prop not in res["caught_by"]
    d = os.path.join(VERIF, "seeded", sid)
    os.makedirs(d, exist_ok=True)
    with open(os.path.join(d, "patch.diff"), "w") as fh:
        fh.write(patch)
    if os.path.exists(demo):
        shutil.copy(demo, os.path.join(d, "seed_demo.rs"))
    meta = dict(res)
    if os.path.exists(notes):
        meta["author_notes"] = open(notes).read()
    shutil.rmtree(wt, ignore_errors=True)
    meta["what_was_run"] = ["cargo test --offline --lib / --doc (with change)", "cargo test --offline [--release] --test seed_demo (with and without the change; profiles: %s)" % ", ".join((p_.strip() or "debug") for p_ in profiles),
                            "VOLUTE_REPO=<fresh scratch copy of /repo HEAD with the patch applied> bin/check <each property> --tier quick"]
    with open(os.path.join(d, "meta.json"), "w") as fh:
        json.dump(meta, fh, indent=1)
    print(json.dumps({k: res[k] for k in ("seed", "property", "confirmed", "suite_with_change", "demo_with_change", "demo_without_change", "caught_by")}))
    for k, v in res["checks"].items():
        print("  ", k, v["summary"], v["refuted"][:1], "undecided=%d" % v["undecided"])
    return 0


if __name__ == "__main__":
    sys.exit(main())
