#!/usr/bin/env python3
"""tools/seed_check.py <seed-id> [P1,P2,..] [--tier T]: apply /verif/seeded/<seed-id>/patch.diff to a scratch copy of
/repo HEAD, run the listed checks (default: the seed's own property) against it, remove the copy."""
import json
import os
import shutil
import subprocess
import sys

VERIF = os.path.dirname(os.path.dirname(os.path.abspath(__file__)))


def main():
    sid = sys.argv[1]
    d = os.path.join(VERIF, "seeded", sid)
    meta = json.load(open(os.path.join(d, "meta.json")))
    props = sys.argv[2].split(",") if len(sys.argv) > 2 and not sys.argv[2].startswith("--") else [meta["property"]]
    tier = sys.argv[sys.argv.index("--tier") + 1] if "--tier" in sys.argv else "quick"
    wt = "/tmp/seedchk/%s" % sid
    shutil.rmtree(wt, ignore_errors=True)
    os.makedirs(wt)
    subprocess.check_call("git -C /repo archive HEAD | tar -x -C %s" % wt, shell=True)
    subprocess.check_call("cd %s && patch -s -p1 < %s" % (wt, os.path.join(d, "patch.diff")), shell=True)
    env = dict(os.environ, VOLUTE_REPO=wt)
    caught = []
    for p in props:
        r = subprocess.run("bin/check %s --tier %s 2>/dev/null" % (p, tier), cwd=VERIF, shell=True, env=env, stdout=subprocess.PIPE, text=True)
        lines = r.stdout.strip().splitlines()
        vio = any(l.startswith("VIOLATION") for l in lines)
        if vio:
            caught.append(p)
        print("%s vs %s: %s" % (sid, p, "VIOLATION" if vio else "quiet"), [l for l in lines if l.startswith(p + " tier")][:1])
        for l in [l.strip()[:330] for l in lines if l.strip().startswith("REFUTED")][:2]:
            print("    ", l)
        und = [l[:200] for l in lines if l.startswith("UNDECIDED")]
        if und:
            print("     undecided: %d, e.g. %s" % (len(und), und[0]))
    shutil.rmtree(wt, ignore_errors=True)
    return caught


if __name__ == "__main__":
    main()
