#!/usr/bin/env python3
"""tools/undecided_causes.py <refactor-name> P1,P2,..  : apply selftest/refactors/<name>.diff to a scratch copy and list the
causes of UNDECIDED obligations of the given checks (to decide what the std model should learn next)."""
import collections
import os
import re
import shutil
import subprocess
import sys

VERIF = os.path.dirname(os.path.dirname(os.path.abspath(__file__)))


def main():
    name, props = sys.argv[1], sys.argv[2].split(",")
    wt = "/tmp/undec/%s" % name
    shutil.rmtree(wt, ignore_errors=True)
    os.makedirs(wt)
    subprocess.check_call("git -C /repo archive HEAD | tar -x -C %s" % wt, shell=True)
    subprocess.check_call("cd %s && patch -s -p1 < %s/selftest/refactors/%s.diff" % (wt, VERIF, name), shell=True)
    env = dict(os.environ, VOLUTE_REPO=wt)
    for p in props:
        r = subprocess.run("bin/check %s --tier quick 2>/dev/null" % p, cwd=VERIF, shell=True, env=env, stdout=subprocess.PIPE, text=True)
        c = collections.Counter()
        for l in r.stdout.splitlines():
            if l.startswith("UNDECIDED"):
                cause = l.split("cause=", 1)[1] if "cause=" in l else l
                c[re.sub(r"\d+", "N", cause)[:160]] += 1
        print("%s %s:" % (name, p))
        for k, v in c.most_common(6):
            print("   %4d  %s" % (v, k))
    shutil.rmtree(wt, ignore_errors=True)


if __name__ == "__main__":
    main()
