// Fact extractor for the volute verification harness.
//
// Injected as RUSTC_WORKSPACE_WRAPPER under `cargo +nightly check`. For the `volute` crate
// only, after analysis it serialises the type-checked program (ADTs, impls, aliases, evaluated
// constants, and the MIR of every local body with resolved callees) into ONE json file whose
// path is given by $VOLUTE_FACTS_OUT. It takes no decisions: all rules live in /verif/analysis.
#![feature(rustc_private)]

extern crate rustc_abi;
extern crate rustc_driver;
extern crate rustc_hir;
extern crate rustc_interface;
extern crate rustc_middle;
extern crate rustc_span;

use rustc_driver::{Callbacks, Compilation};
use rustc_hir::def::DefKind;
use rustc_hir::def_id::{DefId, LOCAL_CRATE};
use rustc_interface::interface;
use rustc_middle::mir::interpret::{AllocId, GlobalAlloc, Scalar};
use rustc_middle::mir::{
    self, AggregateKind, AssertKind, BinOp, BorrowKind, CastKind, ConstValue, Operand, Place,
    ProjectionElem, Rvalue, StatementKind, TerminatorKind, UnOp,
};
use rustc_middle::ty::print::PrintTraitRefExt;
use rustc_middle::ty::{self, GenericArgKind, GenericArgsRef, Instance, Ty, TyCtxt, TypingEnv};
use rustc_span::Span;
use std::fmt::Write as _;

// ------------------------------------------------------------------------------------------
// tiny json builder
// ------------------------------------------------------------------------------------------
enum J {
    Null,
    B(bool),
    N(u128),
    S(String),
    A(Vec<J>),
    O(Vec<(&'static str, J)>),
}

impl J {
    fn write(&self, out: &mut String) {
        match self {
            J::Null => out.push_str("null"),
            J::B(b) => out.push_str(if *b { "true" } else { "false" }),
            J::N(n) => {
                let _ = write!(out, "{}", n);
            }
            J::S(s) => {
                out.push('"');
                for c in s.chars() {
                    match c {
                        '"' => out.push_str("\\\""),
                        '\\' => out.push_str("\\\\"),
                        '\n' => out.push_str("\\n"),
                        '\r' => out.push_str("\\r"),
                        '\t' => out.push_str("\\t"),
                        c if (c as u32) < 0x20 => {
                            let _ = write!(out, "\\u{:04x}", c as u32);
                        }
                        c => out.push(c),
                    }
                }
                out.push('"');
            }
            J::A(v) => {
                out.push('[');
                for (i, x) in v.iter().enumerate() {
                    if i > 0 {
                        out.push(',');
                    }
                    x.write(out);
                }
                out.push(']');
            }
            J::O(v) => {
                out.push('{');
                for (i, (k, x)) in v.iter().enumerate() {
                    if i > 0 {
                        out.push(',');
                    }
                    out.push('"');
                    out.push_str(k);
                    out.push_str("\":");
                    x.write(out);
                }
                out.push('}');
            }
        }
    }
}

fn s<T: ToString>(x: T) -> J {
    J::S(x.to_string())
}
fn n<T: Into<u128>>(x: T) -> J {
    J::N(x.into())
}

macro_rules! obj {
    ($($k:literal => $v:expr),* $(,)?) => { J::O(vec![$(($k, $v)),*]) };
}

// ------------------------------------------------------------------------------------------
// helpers
// ------------------------------------------------------------------------------------------
struct Cx<'tcx> {
    tcx: TyCtxt<'tcx>,
}

impl<'tcx> Cx<'tcx> {
    /// Unique, position-based key of a definition (only used to link facts together).
    fn key(&self, did: DefId) -> String {
        let tcx = self.tcx;
        format!("{}{}", tcx.crate_name(did.krate), tcx.def_path(did).to_string_no_crate_verbose())
    }

    fn path(&self, did: DefId) -> String {
        self.tcx.def_path_str(did)
    }

    fn span_j(&self, sp: Span) -> J {
        let sm = self.tcx.sess.source_map();
        let mut macros = Vec::new();
        for e in sp.macro_backtrace() {
            macros.push(s(e.kind.descr()));
        }
        // the outermost call site is what the user wrote
        let user = sp.source_callsite();
        let lo = sm.lookup_char_pos(user.lo());
        let file = match &lo.file.name {
            rustc_span::FileName::Real(r) => match r.local_path() {
                Some(p) => p.to_string_lossy().to_string(),
                None => format!("{:?}", r),
            },
            other => format!("{:?}", other),
        };
        obj! {
            "file" => s(file),
            "line" => n(lo.line as u64),
            "col" => n(lo.col.0 as u64 + 1),
            "exp" => J::B(sp.from_expansion()),
            "macros" => J::A(macros),
        }
    }

    fn snippet(&self, sp: Span) -> J {
        match self.tcx.sess.source_map().span_to_snippet(sp.source_callsite()) {
            Ok(t) => s(t),
            Err(_) => J::Null,
        }
    }

    fn ct_j(&self, ct: ty::Const<'tcx>) -> J {
        match ct.kind() {
            ty::ConstKind::Param(p) => obj! {"k" => s("param"), "name" => s(p.name)},
            ty::ConstKind::Value(v) => {
                if let Some(sc) = v.try_to_leaf() {
                    let size = sc.size();
                    obj! {"k" => s("int"), "v" => n(sc.to_bits(size)), "ty" => self.ty_j(v.ty)}
                } else {
                    obj! {"k" => s("valtree"), "s" => s(format!("{:?}", v))}
                }
            }
            _ => obj! {"k" => s("other"), "s" => s(format!("{:?}", ct))},
        }
    }

    fn args_j(&self, args: GenericArgsRef<'tcx>) -> J {
        let mut v = Vec::new();
        for a in args.iter() {
            match a.kind() {
                GenericArgKind::Lifetime(_) => {}
                GenericArgKind::Type(t) => v.push(self.ty_j(t)),
                GenericArgKind::Const(c) => v.push(obj! {"k" => s("const"), "c" => self.ct_j(c)}),
            }
        }
        J::A(v)
    }

    fn ty_j(&self, t: Ty<'tcx>) -> J {
        let disp = s(format!("{}", t));
        match t.kind() {
            ty::Bool => obj! {"k" => s("bool"), "s" => disp},
            ty::Char => obj! {"k" => s("char"), "s" => disp},
            ty::Str => obj! {"k" => s("str"), "s" => disp},
            ty::Never => obj! {"k" => s("never"), "s" => disp},
            ty::Int(it) => {
                obj! {"k" => s("int"), "w" => n(it.bit_width().unwrap_or(64)), "ptr" => J::B(it.bit_width().is_none()), "s" => disp}
            }
            ty::Uint(ut) => {
                obj! {"k" => s("uint"), "w" => n(ut.bit_width().unwrap_or(64)), "ptr" => J::B(ut.bit_width().is_none()), "s" => disp}
            }
            ty::Float(_) => obj! {"k" => s("float"), "s" => disp},
            ty::Adt(def, args) => obj! {
                "k" => s("adt"),
                "path" => s(self.path(def.did())),
                "key" => s(self.key(def.did())),
                "local" => J::B(def.did().is_local()),
                "args" => self.args_j(args),
                "s" => disp,
            },
            ty::Ref(_, inner, m) => {
                obj! {"k" => s("ref"), "mut" => J::B(m.is_mut()), "t" => self.ty_j(*inner), "s" => disp}
            }
            ty::RawPtr(inner, m) => {
                obj! {"k" => s("ptr"), "mut" => J::B(m.is_mut()), "t" => self.ty_j(*inner), "s" => disp}
            }
            ty::Slice(inner) => obj! {"k" => s("slice"), "t" => self.ty_j(*inner), "s" => disp},
            ty::Array(inner, len) => {
                obj! {"k" => s("array"), "t" => self.ty_j(*inner), "len" => self.ct_j(*len), "s" => disp}
            }
            ty::Tuple(ts) => {
                obj! {"k" => s("tuple"), "ts" => J::A(ts.iter().map(|x| self.ty_j(x)).collect()), "s" => disp}
            }
            ty::Param(p) => obj! {"k" => s("param"), "name" => s(p.name), "s" => disp},
            ty::Closure(did, _args) => {
                obj! {"k" => s("closure"), "key" => s(self.key(*did)), "s" => disp}
            }
            ty::FnDef(did, args) => obj! {
                "k" => s("fndef"),
                "path" => s(self.path(*did)),
                "key" => s(self.key(*did)),
                "args" => self.args_j(args),
                "s" => disp,
            },
            ty::FnPtr(..) => obj! {"k" => s("fnptr"), "s" => disp},
            ty::Dynamic(..) => obj! {"k" => s("dyn"), "s" => disp},
            ty::Alias(..) => obj! {"k" => s("alias"), "s" => disp},
            _ => obj! {"k" => s("other"), "s" => disp},
        }
    }

    // -------------------------------------------------------------------------------------
    // constant evaluation: nested integer lists
    // -------------------------------------------------------------------------------------
    fn read_alloc(&self, alloc_id: AllocId, offset: u64, ty: Ty<'tcx>, depth: u32) -> J {
        let tcx = self.tcx;
        if depth > 6 {
            return J::Null;
        }
        let alloc = match tcx.global_alloc(alloc_id) {
            GlobalAlloc::Memory(a) => a,
            GlobalAlloc::Static(did) => match tcx.eval_static_initializer(did) {
                Ok(a) => a,
                Err(_) => return J::Null,
            },
            _ => return J::Null,
        };
        let alloc = alloc.inner();
        let bytes = alloc.inspect_with_uninit_and_ptr_outside_interpreter(0..alloc.len());
        let read_uint = |off: u64, size: u64| -> u128 {
            let mut v: u128 = 0;
            for i in 0..size {
                v |= (bytes[(off + i) as usize] as u128) << (8 * i);
            }
            v
        };
        let ptr_at = |off: u64| -> Option<(AllocId, u64)> {
            for (o, prov) in alloc.provenance().ptrs().iter() {
                if o.bytes() == off {
                    let addr = read_uint(off, 8) as u64;
                    return Some((prov.alloc_id(), addr));
                }
            }
            None
        };
        match ty.kind() {
            ty::Bool => J::B(read_uint(offset, 1) != 0),
            ty::Uint(ut) => {
                let sz = ut.bit_width().unwrap_or(64) / 8;
                n(read_uint(offset, sz))
            }
            ty::Int(it) => {
                let sz = it.bit_width().unwrap_or(64) / 8;
                n(read_uint(offset, sz))
            }
            ty::Array(inner, len) => {
                let len = match len.try_to_target_usize(tcx) {
                    Some(l) => l,
                    None => return J::Null,
                };
                let esz = match self.size_of(*inner) {
                    Some(x) => x,
                    None => return J::Null,
                };
                let mut v = Vec::new();
                for i in 0..len {
                    v.push(self.read_alloc(alloc_id, offset + i * esz, *inner, depth + 1));
                }
                J::A(v)
            }
            ty::Ref(_, inner, _) => match inner.kind() {
                ty::Slice(elem) => {
                    let (aid, addr) = match ptr_at(offset) {
                        Some(x) => x,
                        None => return J::Null,
                    };
                    let len = read_uint(offset + 8, 8) as u64;
                    let esz = match self.size_of(*elem) {
                        Some(x) => x,
                        None => return J::Null,
                    };
                    let mut v = Vec::new();
                    for i in 0..len {
                        v.push(self.read_alloc(aid, addr + i * esz, *elem, depth + 1));
                    }
                    J::A(v)
                }
                ty::Str => {
                    let (aid, addr) = match ptr_at(offset) {
                        Some(x) => x,
                        None => return J::Null,
                    };
                    let len = read_uint(offset + 8, 8) as u64;
                    self.read_str(aid, addr, len)
                }
                _ => {
                    let (aid, addr) = match ptr_at(offset) {
                        Some(x) => x,
                        None => return J::Null,
                    };
                    self.read_alloc(aid, addr, *inner, depth + 1)
                }
            },
            ty::Tuple(ts) if ts.is_empty() => J::A(vec![]),
            _ => J::Null,
        }
    }

    fn read_str(&self, alloc_id: AllocId, offset: u64, len: u64) -> J {
        let alloc = match self.tcx.global_alloc(alloc_id) {
            GlobalAlloc::Memory(a) => a,
            _ => return J::Null,
        };
        let alloc = alloc.inner();
        let r = offset as usize..(offset + len) as usize;
        if r.end > alloc.len() {
            return J::Null;
        }
        let bytes = alloc.inspect_with_uninit_and_ptr_outside_interpreter(r);
        s(String::from_utf8_lossy(bytes))
    }

    fn size_of(&self, ty: Ty<'tcx>) -> Option<u64> {
        let env = TypingEnv::fully_monomorphized();
        self.tcx.layout_of(env.as_query_input(ty)).ok().map(|l| l.size.bytes())
    }

    fn constvalue_j(&self, cv: ConstValue, ty: Ty<'tcx>) -> J {
        match cv {
            ConstValue::Scalar(Scalar::Int(i)) => n(i.to_bits(i.size())),
            ConstValue::Scalar(Scalar::Ptr(p, _)) => {
                let (prov, off) = p.prov_and_relative_offset();
                match ty.kind() {
                    ty::Ref(_, inner, _) => self.read_alloc(prov.alloc_id(), off.bytes(), *inner, 0),
                    _ => J::Null,
                }
            }
            ConstValue::ZeroSized => J::A(vec![]),
            ConstValue::Slice { alloc_id, meta } => match ty.kind() {
                ty::Ref(_, inner, _) => match inner.kind() {
                    ty::Str => self.read_str(alloc_id, 0, meta),
                    ty::Slice(elem) => {
                        let esz = match self.size_of(*elem) {
                            Some(x) => x,
                            None => return J::Null,
                        };
                        let mut v = Vec::new();
                        for i in 0..meta {
                            v.push(self.read_alloc(alloc_id, i * esz, *elem, 1));
                        }
                        J::A(v)
                    }
                    _ => J::Null,
                },
                _ => J::Null,
            },
            ConstValue::Indirect { alloc_id, offset } => {
                self.read_alloc(alloc_id, offset.bytes(), ty, 0)
            }
        }
    }

    // -------------------------------------------------------------------------------------
    // MIR
    // -------------------------------------------------------------------------------------
    fn place_j(&self, p: &Place<'tcx>) -> J {
        let mut proj = Vec::new();
        for e in p.projection.iter() {
            proj.push(match e {
                ProjectionElem::Deref => obj! {"k" => s("deref")},
                ProjectionElem::Field(f, t) => {
                    obj! {"k" => s("field"), "i" => n(f.as_u32()), "ty" => self.ty_j(t)}
                }
                ProjectionElem::Index(l) => obj! {"k" => s("index"), "l" => n(l.as_u32())},
                ProjectionElem::ConstantIndex { offset, min_length, from_end } => {
                    obj! {"k" => s("cindex"), "off" => n(offset), "min" => n(min_length), "from_end" => J::B(from_end)}
                }
                ProjectionElem::Subslice { from, to, from_end } => {
                    obj! {"k" => s("subslice"), "from" => n(from), "to" => n(to), "from_end" => J::B(from_end)}
                }
                ProjectionElem::Downcast(name, v) => {
                    obj! {"k" => s("downcast"), "v" => n(v.as_u32()), "name" => match name { Some(x) => s(x), None => J::Null }}
                }
                ProjectionElem::OpaqueCast(_) => obj! {"k" => s("opaque")},
                ProjectionElem::UnwrapUnsafeBinder(_) => obj! {"k" => s("unwrap_binder")},
            });
        }
        obj! {"l" => n(p.local.as_u32()), "p" => J::A(proj)}
    }

    fn const_j(&self, owner: DefId, c: &mir::ConstOperand<'tcx>) -> J {
        let tcx = self.tcx;
        let ty = c.const_.ty();
        let tyj = self.ty_j(ty);
        match c.const_ {
            mir::Const::Ty(_, ct) => obj! {"k" => s("const"), "ty" => tyj, "ct" => self.ct_j(ct)},
            mir::Const::Unevaluated(uv, _) => {
                let mut val = J::Null;
                if uv.promoted.is_none() && uv.args.is_empty() {
                    if let Ok(cv) = tcx.const_eval_poly(uv.def) {
                        val = self.constvalue_j(cv, ty);
                    }
                }
                obj! {
                    "k" => s("const"), "ty" => tyj,
                    "uneval" => obj!{
                        "path" => s(self.path(uv.def)),
                        "key" => s(self.key(uv.def)),
                        "promoted" => match uv.promoted { Some(p) => n(p.as_u32()), None => J::Null },
                        "args" => self.args_j(uv.args),
                        "own" => J::B(uv.def == owner),
                    },
                    "val" => val,
                }
            }
            mir::Const::Val(cv, _) => {
                if let ty::FnDef(..) = ty.kind() {
                    return obj! {"k" => s("const"), "ty" => tyj, "fn" => J::B(true)};
                }
                // a pointer constant into a `static` item: name the static (address-of a process-wide object)
                if let ConstValue::Scalar(Scalar::Ptr(p, _)) = cv {
                    let (prov, _off) = p.prov_and_relative_offset();
                    if let GlobalAlloc::Static(did) = tcx.global_alloc(prov.alloc_id()) {
                        return obj! {"k" => s("const"), "ty" => tyj, "val" => self.constvalue_j(cv, ty),
                                     "static" => s(self.path(did)), "static_mut" => J::B(tcx.is_mutable_static(did))};
                    }
                }
                obj! {"k" => s("const"), "ty" => tyj, "val" => self.constvalue_j(cv, ty)}
            }
        }
    }

    fn operand_j(&self, owner: DefId, o: &Operand<'tcx>) -> J {
        match o {
            Operand::Copy(p) => obj! {"k" => s("copy"), "place" => self.place_j(p)},
            Operand::Move(p) => obj! {"k" => s("move"), "place" => self.place_j(p)},
            Operand::Constant(c) => self.const_j(owner, c),
            Operand::RuntimeChecks(rc) => obj! {"k" => s("runtime_checks"), "s" => s(format!("{:?}", rc))},
        }
    }

    fn binop_s(op: BinOp) -> &'static str {
        match op {
            BinOp::Add => "Add",
            BinOp::AddUnchecked => "AddUnchecked",
            BinOp::AddWithOverflow => "AddWithOverflow",
            BinOp::Sub => "Sub",
            BinOp::SubUnchecked => "SubUnchecked",
            BinOp::SubWithOverflow => "SubWithOverflow",
            BinOp::Mul => "Mul",
            BinOp::MulUnchecked => "MulUnchecked",
            BinOp::MulWithOverflow => "MulWithOverflow",
            BinOp::Div => "Div",
            BinOp::Rem => "Rem",
            BinOp::BitXor => "BitXor",
            BinOp::BitAnd => "BitAnd",
            BinOp::BitOr => "BitOr",
            BinOp::Shl => "Shl",
            BinOp::ShlUnchecked => "ShlUnchecked",
            BinOp::Shr => "Shr",
            BinOp::ShrUnchecked => "ShrUnchecked",
            BinOp::Eq => "Eq",
            BinOp::Lt => "Lt",
            BinOp::Le => "Le",
            BinOp::Ne => "Ne",
            BinOp::Ge => "Ge",
            BinOp::Gt => "Gt",
            BinOp::Cmp => "Cmp",
            BinOp::Offset => "Offset",
        }
    }

    fn rvalue_j(&self, owner: DefId, rv: &Rvalue<'tcx>) -> J {
        match rv {
            Rvalue::Use(o, _) => obj! {"k" => s("use"), "op" => self.operand_j(owner, o)},
            Rvalue::Repeat(o, ct) => {
                obj! {"k" => s("repeat"), "op" => self.operand_j(owner, o), "count" => self.ct_j(*ct)}
            }
            Rvalue::Ref(_, bk, p) => obj! {
                "k" => s("ref"),
                "mut" => J::B(matches!(bk, BorrowKind::Mut { .. })),
                "place" => self.place_j(p),
            },
            Rvalue::RawPtr(kind, p) => {
                obj! {"k" => s("rawptr"), "kind" => s(format!("{:?}", kind)), "place" => self.place_j(p)}
            }
            Rvalue::Cast(kind, o, t) => {
                let ks = match kind {
                    CastKind::IntToInt => "IntToInt".to_string(),
                    CastKind::Transmute => "Transmute".to_string(),
                    CastKind::PtrToPtr => "PtrToPtr".to_string(),
                    CastKind::PointerCoercion(pc, _) => format!("PointerCoercion({:?})", pc),
                    other => format!("{:?}", other),
                };
                obj! {"k" => s("cast"), "kind" => s(ks), "op" => self.operand_j(owner, o), "ty" => self.ty_j(*t)}
            }
            Rvalue::BinaryOp(op, ab) => obj! {
                "k" => s("binop"), "op" => s(Self::binop_s(*op)),
                "a" => self.operand_j(owner, &ab.0), "b" => self.operand_j(owner, &ab.1),
            },
            Rvalue::UnaryOp(op, o) => {
                let os = match op {
                    UnOp::Not => "Not",
                    UnOp::Neg => "Neg",
                    UnOp::PtrMetadata => "PtrMetadata",
                };
                obj! {"k" => s("unop"), "op" => s(os), "a" => self.operand_j(owner, o)}
            }
            Rvalue::Discriminant(p) => obj! {"k" => s("discr"), "place" => self.place_j(p)},
            Rvalue::Aggregate(kind, ops) => {
                let kj = match &**kind {
                    AggregateKind::Array(t) => obj! {"k" => s("array"), "t" => self.ty_j(*t)},
                    AggregateKind::Tuple => obj! {"k" => s("tuple")},
                    AggregateKind::Adt(did, variant, args, _, active) => obj! {
                        "k" => s("adt"),
                        "path" => s(self.path(*did)),
                        "key" => s(self.key(*did)),
                        "variant" => n(variant.as_u32()),
                        "args" => self.args_j(args),
                        "union_field" => match active { Some(f) => n(f.as_u32()), None => J::Null },
                    },
                    AggregateKind::Closure(did, _) => {
                        obj! {"k" => s("closure"), "key" => s(self.key(*did))}
                    }
                    other => obj! {"k" => s("other"), "s" => s(format!("{:?}", other))},
                };
                obj! {
                    "k" => s("aggregate"), "agg" => kj,
                    "ops" => J::A(ops.iter().map(|o| self.operand_j(owner, o)).collect()),
                }
            }
            Rvalue::CopyForDeref(p) => obj! {"k" => s("copy_for_deref"), "place" => self.place_j(p)},
            Rvalue::ThreadLocalRef(did) => obj! {"k" => s("tls"), "path" => s(self.path(*did))},
            other => obj! {"k" => s("other"), "s" => s(format!("{:?}", other))},
        }
    }

    fn callee_j(&self, owner: DefId, func: &Operand<'tcx>) -> J {
        let tcx = self.tcx;
        if let Operand::Constant(c) = func {
            if let ty::FnDef(def, args) = c.const_.ty().kind() {
                let env = TypingEnv::post_analysis(tcx, owner);
                let mut resolved = J::Null;
                if let Ok(Some(inst)) = Instance::try_resolve(tcx, env, *def, args) {
                    let rd = inst.def_id();
                    let kind = match inst.def {
                        ty::InstanceKind::Item(_) => "item".to_string(),
                        other => {
                            let d = format!("{:?}", other);
                            d.split('(').next().unwrap_or("").to_string()
                        }
                    };
                    resolved = obj! {
                        "path" => s(self.path(rd)),
                        "key" => s(self.key(rd)),
                        "local" => J::B(rd.is_local()),
                        "args" => self.args_j(inst.args),
                        "kind" => s(kind),
                    };
                }
                let mut trait_j = J::Null;
                if let Some(assoc) = tcx.opt_associated_item(*def) {
                    if let Some(tr) = assoc.trait_container(tcx) {
                        trait_j = s(self.path(tr));
                    }
                }
                return obj! {
                    "path" => s(self.path(*def)),
                    "key" => s(self.key(*def)),
                    "name" => s(tcx.item_name(*def)),
                    "local" => J::B(def.is_local()),
                    "args" => self.args_j(args),
                    "trait" => trait_j,
                    "resolved" => resolved,
                };
            }
        }
        obj! {"indirect" => self.operand_j(owner, func)}
    }

    fn body_j(&self, owner: DefId, body: &mir::Body<'tcx>) -> (J, usize) {
        let mut locals = Vec::new();
        for (_l, d) in body.local_decls.iter_enumerated() {
            locals.push(obj! {"ty" => self.ty_j(d.ty), "mut" => J::B(d.mutability.is_mut())});
        }
        let mut names = Vec::new();
        for vdi in &body.var_debug_info {
            if let mir::VarDebugInfoContents::Place(p) = &vdi.value {
                names.push(obj! {"name" => s(vdi.name), "place" => self.place_j(p)});
            }
        }
        let mut blocks = Vec::new();
        let mut ncalls = 0usize;
        for (_bb, data) in body.basic_blocks.iter_enumerated() {
            let mut stmts = Vec::new();
            for st in &data.statements {
                let sj = match &st.kind {
                    StatementKind::Assign(b) => {
                        let (p, rv) = &**b;
                        obj! {
                            "k" => s("assign"),
                            "place" => self.place_j(p),
                            "rv" => self.rvalue_j(owner, rv),
                            "span" => self.span_j(st.source_info.span),
                        }
                    }
                    StatementKind::SetDiscriminant { place, variant_index } => obj! {
                        "k" => s("set_discr"),
                        "place" => self.place_j(place),
                        "v" => n(variant_index.as_u32()),
                        "span" => self.span_j(st.source_info.span),
                    },
                    StatementKind::StorageLive(l) => obj! {"k" => s("live"), "l" => n(l.as_u32())},
                    StatementKind::StorageDead(l) => obj! {"k" => s("dead"), "l" => n(l.as_u32())},
                    StatementKind::Intrinsic(i) => {
                        obj! {"k" => s("intrinsic"), "s" => s(format!("{:?}", i))}
                    }
                    _ => continue,
                };
                stmts.push(sj);
            }
            let term = data.terminator();
            let sp = term.source_info.span;
            let tj = match &term.kind {
                TerminatorKind::Goto { target } => {
                    obj! {"k" => s("goto"), "t" => n(target.as_u32())}
                }
                TerminatorKind::SwitchInt { discr, targets } => {
                    let mut arms = Vec::new();
                    for (v, t) in targets.iter() {
                        arms.push(J::A(vec![n(v), n(t.as_u32())]));
                    }
                    obj! {
                        "k" => s("switch"),
                        "discr" => self.operand_j(owner, discr),
                        "arms" => J::A(arms),
                        "otherwise" => n(targets.otherwise().as_u32()),
                        "span" => self.span_j(sp),
                    }
                }
                TerminatorKind::Return => obj! {"k" => s("return"), "span" => self.span_j(sp)},
                TerminatorKind::Unreachable => obj! {"k" => s("unreachable")},
                TerminatorKind::UnwindResume => obj! {"k" => s("resume")},
                TerminatorKind::UnwindTerminate(_) => obj! {"k" => s("terminate")},
                TerminatorKind::Drop { place, target, .. } => {
                    obj! {"k" => s("drop"), "place" => self.place_j(place), "t" => n(target.as_u32())}
                }
                TerminatorKind::Call { func, args, destination, target, fn_span, .. } => {
                    ncalls += 1;
                    obj! {
                        "k" => s("call"),
                        "func" => self.callee_j(owner, func),
                        "args" => J::A(args.iter().map(|a| self.operand_j(owner, &a.node)).collect()),
                        "dest" => self.place_j(destination),
                        "t" => match target { Some(t) => n(t.as_u32()), None => J::Null },
                        "span" => self.span_j(sp),
                        "fn_span" => self.span_j(*fn_span),
                        "snippet" => self.snippet(sp),
                    }
                }
                TerminatorKind::Assert { cond, expected, msg, target, .. } => {
                    let (mk, mops) = match &**msg {
                        AssertKind::BoundsCheck { len, index } => (
                            "BoundsCheck".to_string(),
                            vec![self.operand_j(owner, len), self.operand_j(owner, index)],
                        ),
                        AssertKind::Overflow(op, a, b) => (
                            format!("Overflow({})", Self::binop_s(*op)),
                            vec![self.operand_j(owner, a), self.operand_j(owner, b)],
                        ),
                        AssertKind::OverflowNeg(a) => {
                            ("OverflowNeg".to_string(), vec![self.operand_j(owner, a)])
                        }
                        AssertKind::DivisionByZero(a) => {
                            ("DivisionByZero".to_string(), vec![self.operand_j(owner, a)])
                        }
                        AssertKind::RemainderByZero(a) => {
                            ("RemainderByZero".to_string(), vec![self.operand_j(owner, a)])
                        }
                        other => {
                            let d = format!("{:?}", other);
                            (d.split(|c| c == '(' || c == ' ' || c == '{').next().unwrap_or("").to_string(), vec![])
                        }
                    };
                    obj! {
                        "k" => s("assert"),
                        "cond" => self.operand_j(owner, cond),
                        "expected" => J::B(*expected),
                        "msg" => s(mk),
                        "ops" => J::A(mops),
                        "t" => n(target.as_u32()),
                        "span" => self.span_j(sp),
                    }
                }
                TerminatorKind::FalseEdge { real_target, .. } => {
                    obj! {"k" => s("goto"), "t" => n(real_target.as_u32())}
                }
                TerminatorKind::FalseUnwind { real_target, .. } => {
                    obj! {"k" => s("goto"), "t" => n(real_target.as_u32())}
                }
                other => obj! {"k" => s("other"), "s" => s(format!("{:?}", other))},
            };
            blocks.push(obj! {"stmts" => J::A(stmts), "term" => tj, "cleanup" => J::B(data.is_cleanup)});
        }
        (
            obj! {
                "arg_count" => n(body.arg_count as u64),
                "locals" => J::A(locals),
                "names" => J::A(names),
                "blocks" => J::A(blocks),
            },
            ncalls,
        )
    }
}

// ------------------------------------------------------------------------------------------
// driver
// ------------------------------------------------------------------------------------------
struct Cb;

fn has_unsafe_block(tcx: TyCtxt<'_>, did: rustc_hir::def_id::LocalDefId) -> bool {
    // syntactic: any `unsafe {}` block or unsafe fn header in the HIR body owner
    use rustc_hir::intravisit::{self, Visitor};
    struct V {
        found: bool,
    }
    impl<'v> Visitor<'v> for V {
        fn visit_block(&mut self, b: &'v rustc_hir::Block<'v>) {
            if let rustc_hir::BlockCheckMode::UnsafeBlock(src) = b.rules {
                if matches!(src, rustc_hir::UnsafeSource::UserProvided) {
                    self.found = true;
                }
            }
            intravisit::walk_block(self, b);
        }
    }
    let mut v = V { found: false };
    if let Some(body) = tcx.hir_maybe_body_owned_by(did) {
        v.visit_expr(body.value);
    }
    v.found
}

impl Callbacks for Cb {
    fn after_analysis<'tcx>(&mut self, _c: &interface::Compiler, tcx: TyCtxt<'tcx>) -> Compilation {
        if tcx.crate_name(LOCAL_CRATE).as_str() != "volute" {
            return Compilation::Continue;
        }
        let out_path = match std::env::var("VOLUTE_FACTS_OUT") {
            Ok(p) => p,
            Err(_) => return Compilation::Continue,
        };
        // only the library target (cargo check --all-targets would also build tests/benches)
        let cx = Cx { tcx };
        let mut bodies = Vec::new();
        let mut total_calls = 0usize;
        for ldid in tcx.hir_body_owners() {
            let did = ldid.to_def_id();
            let kind = tcx.def_kind(did);
            let is_fn = matches!(kind, DefKind::Fn | DefKind::AssocFn | DefKind::Closure);
            let is_const = matches!(kind, DefKind::Const { .. } | DefKind::Static { .. } | DefKind::AssocConst { .. });
            if !is_fn && !is_const {
                continue;
            }
            let vis = if matches!(kind, DefKind::Fn | DefKind::AssocFn) {
                let v = tcx.visibility(did);
                if v.is_public() { "pub" } else { "restricted" }
            } else {
                "na"
            };
            let mut impl_j = J::Null;
            let mut parent_key = J::Null;
            if matches!(kind, DefKind::AssocFn) {
                let parent = tcx.parent(did);
                parent_key = s(cx.key(parent));
                if matches!(tcx.def_kind(parent), DefKind::Impl { .. }) {
                    let self_ty = tcx.type_of(parent).instantiate_identity().skip_norm_wip();
                    let tr = tcx.impl_opt_trait_ref(parent).map(|t| t.instantiate_identity().skip_norm_wip());
                    impl_j = obj! {
                        "key" => s(cx.key(parent)),
                        "self_ty" => cx.ty_j(self_ty),
                        "trait" => match tr {
                            Some(t) => obj!{"path" => s(cx.path(t.def_id)), "args" => cx.args_j(t.args), "s" => s(format!("{}", t.print_only_trait_path()))},
                            None => J::Null,
                        },
                        "derived" => J::B(tcx.is_automatically_derived(parent)),
                    };
                }
            } else if matches!(kind, DefKind::Closure) {
                parent_key = s(cx.key(tcx.typeck_root_def_id(did)));
            }
            let sig_j = if matches!(kind, DefKind::Fn | DefKind::AssocFn) {
                let sig = tcx.fn_sig(did).instantiate_identity().skip_norm_wip().skip_binder();
                obj! {
                    "inputs" => J::A(sig.inputs().iter().map(|t| cx.ty_j(*t)).collect()),
                    "output" => cx.ty_j(sig.output()),
                }
            } else {
                J::Null
            };
            let generics = {
                let g = tcx.generics_of(did);
                let mut v = Vec::new();
                let mut cur = Some(g);
                let mut stack = Vec::new();
                while let Some(gg) = cur {
                    stack.push(gg);
                    cur = gg.parent.map(|p| tcx.generics_of(p));
                }
                for gg in stack.iter().rev() {
                    for p in &gg.own_params {
                        let k = match p.kind {
                            ty::GenericParamDefKind::Lifetime => continue,
                            ty::GenericParamDefKind::Type { .. } => "type",
                            ty::GenericParamDefKind::Const { .. } => "const",
                        };
                        v.push(obj! {"name" => s(p.name), "k" => s(k)});
                    }
                }
                J::A(v)
            };
            let (mir_j, nc, promoted_j) = if is_fn || is_const {
                let (body, promoted): (&mir::Body<'tcx>, _) = if is_fn {
                    (tcx.optimized_mir(did), tcx.promoted_mir(did))
                } else {
                    (tcx.mir_for_ctfe(did), tcx.promoted_mir(did))
                };
                let (bj, nc) = cx.body_j(did, body);
                let mut pv = Vec::new();
                for pb in promoted.iter() {
                    let (pj, _) = cx.body_j(did, pb);
                    pv.push(pj);
                }
                (bj, nc, J::A(pv))
            } else {
                (J::Null, 0, J::A(vec![]))
            };
            total_calls += nc;
            let hir_id = tcx.local_def_id_to_hir_id(ldid);
            let mut attrs = Vec::new();
            for a in tcx.hir_attrs(hir_id) {
                attrs.push(s(format!("{:?}", a).chars().take(80).collect::<String>()));
            }
            bodies.push(obj! {
                "key" => s(cx.key(did)),
                "path" => s(cx.path(did)),
                "name" => if matches!(kind, DefKind::Closure) { s("{closure}") } else { s(tcx.item_name(did)) },
                "kind" => s(format!("{:?}", kind).split(|c| c == ' ' || c == '{' || c == '(').next().unwrap_or("").to_string()),
                "vis" => s(vis),
                "parent" => parent_key,
                "impl" => impl_j,
                "sig" => sig_j,
                "generics" => generics,
                "span" => cx.span_j(tcx.def_span(did)),
                "unsafe_block" => J::B(has_unsafe_block(tcx, ldid)),
                "attrs" => J::A(attrs),
                "mir" => mir_j,
                "promoted" => promoted_j,
            });
        }

        // ADTs, aliases, consts, statics, re-exports, impls
        let mut adts = Vec::new();
        let mut aliases = Vec::new();
        let mut consts = Vec::new();
        let mut statics = Vec::new();
        let mut impls = Vec::new();
        let mut mods = Vec::new();
        for id in tcx.hir_free_items() {
            let ldid = id.owner_id.def_id;
            let did = ldid.to_def_id();
            match tcx.def_kind(did) {
                DefKind::Struct | DefKind::Enum | DefKind::Union => {
                    let adt = tcx.adt_def(did);
                    let mut variants = Vec::new();
                    for v in adt.variants() {
                        let mut fields = Vec::new();
                        for f in &v.fields {
                            let fty = tcx.type_of(f.did).instantiate_identity().skip_norm_wip();
                            fields.push(obj! {
                                "name" => s(f.name),
                                "ty" => cx.ty_j(fty),
                                "pub" => J::B(f.vis.is_public()),
                                "vis" => match f.vis {
                                    ty::Visibility::Public => s("pub"),
                                    ty::Visibility::Restricted(m) => s(format!("in {}", cx.key(m))),
                                },
                            });
                        }
                        variants.push(obj! {"name" => s(v.name), "fields" => J::A(fields)});
                    }
                    adts.push(obj! {
                        "key" => s(cx.key(did)),
                        "path" => s(cx.path(did)),
                        "kind" => s(format!("{:?}", tcx.def_kind(did))),
                        "pub" => J::B(tcx.visibility(did).is_public()),
                        "variants" => J::A(variants),
                        "span" => cx.span_j(tcx.def_span(did)),
                    });
                }
                DefKind::TyAlias => {
                    let t = tcx.type_of(did).instantiate_identity().skip_norm_wip();
                    aliases.push(obj! {
                        "key" => s(cx.key(did)),
                        "path" => s(cx.path(did)),
                        "name" => s(tcx.item_name(did)),
                        "pub" => J::B(tcx.visibility(did).is_public()),
                        "ty" => cx.ty_j(t),
                    });
                }
                DefKind::Const { .. } => {
                    let t = tcx.type_of(did).instantiate_identity().skip_norm_wip();
                    let val = match tcx.const_eval_poly(did) {
                        Ok(cv) => cx.constvalue_j(cv, t),
                        Err(_) => J::Null,
                    };
                    consts.push(obj! {
                        "key" => s(cx.key(did)),
                        "path" => s(cx.path(did)),
                        "name" => s(tcx.item_name(did)),
                        "ty" => cx.ty_j(t),
                        "val" => val,
                    });
                }
                DefKind::Static { .. } => {
                    let t = tcx.type_of(did).instantiate_identity().skip_norm_wip();
                    statics.push(obj! {
                        "key" => s(cx.key(did)),
                        "path" => s(cx.path(did)),
                        "ty" => cx.ty_j(t),
                        "mut" => J::B(tcx.is_mutable_static(did)),
                    });
                }
                DefKind::Impl { .. } => {
                    let self_ty = tcx.type_of(did).instantiate_identity().skip_norm_wip();
                    let tr = tcx.impl_opt_trait_ref(did).map(|t| t.instantiate_identity().skip_norm_wip());
                    let mut items = Vec::new();
                    for it in tcx.associated_items(did).in_definition_order() {
                        items.push(obj! {
                            "key" => s(cx.key(it.def_id)),
                            "name" => s(it.name()),
                            "kind" => s(format!("{:?}", tcx.def_kind(it.def_id))),
                        });
                    }
                    impls.push(obj! {
                        "key" => s(cx.key(did)),
                        "self_ty" => cx.ty_j(self_ty),
                        "trait" => match tr {
                            Some(t) => obj!{"path" => s(cx.path(t.def_id)), "args" => cx.args_j(t.args), "s" => s(format!("{}", t.print_only_trait_path()))},
                            None => J::Null,
                        },
                        "derived" => J::B(tcx.is_automatically_derived(did)),
                        "items" => J::A(items),
                        "span" => cx.span_j(tcx.def_span(did)),
                    });
                }
                DefKind::Mod => {
                    mods.push(obj! {
                        "key" => s(cx.key(did)),
                        "path" => s(cx.path(did)),
                        "pub" => J::B(tcx.visibility(did).is_public()),
                    });
                }
                _ => {}
            }
        }

        // what the crate root exports (name -> target path), one level of public modules deep
        let mut exports = Vec::new();
        let mut work = vec![(String::new(), LOCAL_CRATE.as_def_id(), 0u32)];
        while let Some((prefix, m, depth)) = work.pop() {
            if let Some(lm) = m.as_local() {
                for ch in tcx.module_children_local(lm) {
                    if !ch.vis.is_public() {
                        continue;
                    }
                    if let Some(cd) = ch.res.opt_def_id() {
                        let name = format!("{}{}", prefix, ch.ident.name);
                        exports.push(obj! {
                            "name" => s(&name),
                            "path" => s(cx.path(cd)),
                            "key" => s(cx.key(cd)),
                            "kind" => s(format!("{:?}", tcx.def_kind(cd))),
                            "reexport" => J::B(!ch.reexport_chain.is_empty()),
                        });
                        if matches!(tcx.def_kind(cd), DefKind::Mod) && depth < 3 && cd.is_local() {
                            work.push((format!("{}::", name), cd, depth + 1));
                        }
                    }
                }
            }
        }

        let features: Vec<J> = tcx
            .sess
            .config
            .iter()
            .filter_map(|(k, v)| if k.as_str() == "feature" { v.map(|x| s(x)) } else { None })
            .collect();
        let root = obj! {
            "crate" => s("volute"),
            "features" => J::A(features),
            "debug_assertions" => J::B(tcx.sess.opts.debug_assertions),
            "overflow_checks" => J::B(tcx.sess.overflow_checks()),
            "test_harness" => J::B(tcx.sess.is_test_crate()),
            "total_calls" => n(total_calls as u64),
            "bodies" => J::A(bodies),
            "adts" => J::A(adts),
            "aliases" => J::A(aliases),
            "consts" => J::A(consts),
            "statics" => J::A(statics),
            "impls" => J::A(impls),
            "mods" => J::A(mods),
            "exports" => J::A(exports),
        };
        let mut out = String::new();
        root.write(&mut out);
        // one write per process
        let tmp = format!("{}.tmp.{}", out_path, std::process::id());
        std::fs::write(&tmp, out).expect("write facts");
        std::fs::rename(&tmp, &out_path).expect("rename facts");
        Compilation::Continue
    }
}

fn main() {
    let mut args: Vec<String> = std::env::args().collect();
    // RUSTC_WORKSPACE_WRAPPER passes the real rustc path as argv[1]
    if args.len() > 1 {
        args.remove(1);
    }
    rustc_driver::run_compiler(&args, &mut Cb);
}
