//! Compile-fail witnesses: facts that the type checker enforces for every program using `volute`.
//! Each `compile_fail,E....` block is paired with a compiling twin that differs only in the
//! offending line, so that a witness whose path is merely wrong cannot pass.
//! Run with `cargo +nightly test --doc --offline` (the error codes are only checked on nightly).

/// W1 - the representation of `Lut` / `StaticLut` cannot be touched from outside the crate (C02).
/// ```compile_fail,E0616
/// let l = volute::Lut::zero(3);
/// let _t = &l.table;
/// ```
/// ```compile_fail,E0616
/// let l = volute::Lut3::zero();
/// let _t = &l.table;
/// ```
/// ```compile_fail,E0616
/// let l = volute::Lut::zero(3);
/// let _n = l.num_vars;
/// ```
/// twin: the public view compiles
/// ```
/// let l = volute::Lut::zero(3);
/// let _t = l.blocks();
/// let _n = l.num_vars();
/// let m = volute::Lut3::zero();
/// let _u = m.blocks();
/// ```
pub struct W1;

/// W2 - integer conversions exist only for the matching width (C10).
/// ```compile_fail,E0277
/// let _l = volute::Lut3::from(0u16);
/// ```
/// ```compile_fail,E0277
/// let _x = u8::from(volute::Lut4::zero());
/// ```
/// ```compile_fail,E0277
/// let _l = volute::Lut6::from(0u32);
/// ```
/// twins
/// ```
/// let _a = volute::Lut3::from(0u8);
/// let _b = u16::from(volute::Lut4::zero());
/// let _c = volute::Lut6::from(0u64);
/// let _d = volute::Lut5::from(0u32);
/// let _e = u8::from(volute::Lut3::zero());
/// ```
pub struct W2;

/// W3 - fixed-size tables of different sizes cannot be combined (C17: no runtime size guard needed).
/// ```compile_fail,E0277
/// let _x = volute::Lut3::zero() & volute::Lut4::zero();
/// ```
/// ```compile_fail,E0308
/// let _x = volute::Lut3::zero().and(&volute::Lut4::zero());
/// ```
/// ```compile_fail,E0277
/// let mut a = volute::Lut7::zero();
/// a ^= volute::Lut8::zero();
/// ```
/// twins
/// ```
/// let _x = volute::Lut3::zero() & volute::Lut3::zero();
/// let _y = volute::Lut3::zero().and(&volute::Lut3::zero());
/// let mut a = volute::Lut7::zero();
/// a ^= volute::Lut7::zero();
/// ```
pub struct W3;

/// W4 - operator forms on `&Lut` cannot mutate their operands (C01: borrowed operands unchanged).
/// ```compile_fail,E0596
/// fn f(a: &volute::Lut, b: &volute::Lut) -> volute::Lut {
///     let r = a & b;
///     a.not_inplace();
///     r
/// }
/// ```
/// twin
/// ```
/// fn f(a: &volute::Lut, b: &volute::Lut) -> volute::Lut {
///     let r = a & b;
///     let _ = a.not();
///     r
/// }
/// ```
pub struct W4;
